#!/venv/bin/python
"""tools_promote.py <found-replay.json> <name> <open|fixed> <what> [commit]
Copies a replay found by a check into replays/ and records it in known_findings.json."""
import json, os, shutil, sys
src, name, status, what = sys.argv[1:5]
commit = sys.argv[5] if len(sys.argv) > 5 else None
rep = json.load(open(src))
dst = 'replays/%s-%s.json' % (rep['property'], name)
shutil.copy(src, dst)
kf = json.load(open('known_findings.json')) if os.path.exists('known_findings.json') else {'findings': []}
e = {'property': rep['property'], 'status': status, 'signature': rep['signature'], 'replay': dst, 'what': what}
if commit:
    e['commit'] = commit
    e['record'] = 'fixed: property=%s %s %s' % (rep['property'], commit, what)
kf['findings'] = [x for x in kf['findings'] if x['replay'] != dst] + [e]
json.dump(kf, open('known_findings.json', 'w'), indent=1)
print(dst)
