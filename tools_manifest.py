#!/venv/bin/python
"""Regenerates MANIFEST.json from the check modules' metadata."""
import glob, importlib, json, os, sys
HERE = os.path.dirname(os.path.abspath(__file__))
sys.path.insert(0, HERE); sys.path.insert(0, '/repo/src')
ids = [json.loads(l)['id'] for l in open(os.path.join(HERE, 'properties.jsonl'))]
NA_REASON = {}
checks, engines, have = [], [], set()
for path in sorted(glob.glob(os.path.join(HERE, 'checks', 'c[0-9][0-9]_*.py'))):
    name = os.path.basename(path)[:-3]
    m = importlib.import_module('checks.' + name)
    pid = m.PROPERTY
    have.add(pid)
    checks.append({
        'property_id': pid,
        'quick_cmd': '/venv/bin/python run_check.py %s --tier quick' % pid,
        'thorough_cmd': '/venv/bin/python run_check.py %s --tier thorough' % pid,
        'evidence_file': 'evidence/%s.json' % pid,
        'replay_cmd_template': '/venv/bin/python run_check.py %s --replay {path}' % pid,
        'engine': 'hypothesis+' + name,
        'level_claimed': {'category': m.LEVEL, 'text': m.LEVEL_TEXT, 'design_ref': 'DESIGN.md section 3 ' + pid},
        'level_note': m.LEVEL_NOTE,
        'technique': m.TECH,
    })
    engines.append({'name': 'hypothesis+' + name, 'path': 'checks/%s.py' % name, 'serves_properties': [pid],
                    'kind_free_text': m.TECH})
man = {
 'version': 1,
 'setup_cmd': '/venv/bin/pip install --no-index --find-links /opt/veriftools/wheels hypothesis && /venv/bin/pip install --no-index --find-links /opt/veriftools/wheels --target .deps --upgrade jsonschema',
 'hooks': {'guard': 'ZODB_VERIF',
           'enable': 'no source hooks exist: the harness rebinds module-level names (open, fsync, os, time, random, Lock) inside its own process; nothing in /repo reads the guard',
           'baseline_off_cmd': 'cd /repo && /venv/bin/python -m pytest -ra -q -p no:cacheprovider --timeout=900 --continue-on-collection-errors',
           'source_commits': [], 'add_only': True},
 'engines': engines,
 'checks': checks,
 'notes': 'All checks: Hypothesis-generated JSON cases executed against the real code and an explicit oracle; known findings in known_findings.json; replays in replays/. See DESIGN.md.',
 'not_applicable': [{'property_id': i, 'reason': NA_REASON.get(i, 'check not built yet (work in progress; DESIGN.md section 9 gives the build order)')} for i in ids if i not in have],
}
json.dump(man, open(os.path.join(HERE, 'MANIFEST.json'), 'w'), indent=1)
try:
    sys.path.append(os.path.join(HERE, '.deps'))
    import jsonschema
    jsonschema.validate(man, json.load(open('/root/.vp/MANIFEST.schema.json')))
    print('manifest valid;', len(checks), 'checks;', len(man['not_applicable']), 'not applicable')
except ImportError:
    print('written (jsonschema unavailable)')
