#!/venv/bin/python
"""run_check.py <ID> [--tier quick|thorough] [--replay file]"""
import glob
import os
import sys

HERE = os.path.dirname(os.path.abspath(__file__))
sys.path.insert(0, HERE)
sys.path.insert(0, os.path.join(os.environ.get('VERIF_REPO', '/repo'), 'src'))
if os.path.isdir(os.path.join(HERE, '.deps')):
    sys.path.append(os.path.join(HERE, '.deps'))


def main():
    if len(sys.argv) < 2:
        print(__doc__)
        return 2
    pid = sys.argv[1].lower()
    mods = glob.glob(os.path.join(HERE, 'checks', pid + '_*.py'))
    if len(mods) != 1:
        print('no unique check module for', pid)
        return 2
    from vlib import driver
    return driver.main(os.path.basename(mods[0])[:-3], sys.argv[2:])


if __name__ == '__main__':
    sys.exit(main())
