"""Reference model of a storage history (DESIGN 2.1) and the query battery (2.2).

The model is an ordered list of committed transactions; every storage query is a pure
function of it.  The model never predicts tids: it records what the storage returned.
"""
import base64
import struct

Z64 = b'\0' * 8
MAXTID = b'\x7f' + b'\xff' * 7


def p64(n):
    return struct.pack('>Q', n)


def u64(b):
    return struct.unpack('>Q', b)[0]


class Txn:
    def __init__(self, tid, status=' ', user=b'', desc=b'', ext=b'', recs=None, kind='store'):
        self.tid = tid
        self.status = status
        self.user = user
        self.desc = desc
        self.ext = ext              # raw extension bytes
        self.recs = recs or []      # [(oid, data|None)] in write order
        self.kind = kind            # store | undo | restore

    def last_wins(self):
        d = {}
        for oid, data in self.recs:
            d[oid] = data
        return d


class Model:
    def __init__(self, txns=None):
        self.txns = list(txns or [])

    def copy(self):
        return Model([Txn(t.tid, t.status, t.user, t.desc, t.ext, list(t.recs), t.kind)
                      for t in self.txns])

    def add(self, txn):
        self.txns.append(txn)

    # ---- derived views
    def oids(self):
        s = set()
        for t in self.txns:
            for oid, _ in t.recs:
                s.add(oid)
        return s

    def tids(self):
        return [t.tid for t in self.txns]

    def revisions(self, oid):
        """[(tid, data|None)] oldest first; several records of one oid in a txn: last wins"""
        r = []
        for t in self.txns:
            lw = t.last_wins()
            if oid in lw:
                r.append((t.tid, lw[oid]))
        return r

    def current(self, oid):
        r = self.revisions(oid)
        return r[-1] if r else None

    def last_tid(self):
        return self.txns[-1].tid if self.txns else Z64

    def state_at(self, before=None):
        """{oid: (tid, data)} visible to a snapshot 'before' (None = now), without
        un-created objects"""
        d = {}
        for t in self.txns:
            if before is not None and t.tid >= before:
                break
            for oid, data in t.last_wins().items():
                if data is None:
                    d.pop(oid, None)
                else:
                    d[oid] = (t.tid, data)
        return d

    # ---- expected answers: each returns a tuple of acceptable normal forms
    def x_loadBefore(self, oid, t):
        revs = self.revisions(oid)
        if not revs:
            return ('POSKeyError',)
        before = [r for r in revs if r[0] < t]
        if not before:
            return ('None',)
        tid, data = before[-1]
        after = [r for r in revs if r[0] >= t]
        end = after[0][0] if after else None
        if data is None:
            return ('POSKeyError', 'None')
        return (('rev', data, tid, end),)

    def x_load(self, oid):
        cur = self.current(oid)
        if cur is None or cur[1] is None:
            return ('POSKeyError',)
        return (('ok', cur[1], cur[0]),)

    def x_getTid(self, oid):
        cur = self.current(oid)
        if cur is None:
            return ('POSKeyError',)
        if cur[1] is None:
            # un-created / deleted object: the statement does not fix the answer; FileStorage
            # answers POSKeyError for a direct un-creation record and the record's tid when the
            # un-creation is reached through a back-pointer (undo of undo)
            return ('POSKeyError', ('ok', cur[0]))
        return (('ok', cur[0]),)

    def x_loadSerial(self, oid, tid):
        for t, data in self.revisions(oid):
            if t == tid and data is not None:
                return (('ok', data),)
        return ('POSKeyError',)

    def x_history(self, oid, n):
        revs = self.revisions(oid)
        if not revs:
            return ('POSKeyError',)
        bytid = {t.tid: t for t in self.txns}
        out = []
        for tid, data in reversed(revs):
            if len(out) >= n:
                break
            t = bytid[tid]
            out.append((tid, t.user, t.desc))
        return (('ok', tuple(out)),)

    def x_iterator(self, start=None, stop=None):
        out = []
        for t in self.txns:
            if start is not None and t.tid < start:
                continue
            if stop is not None and t.tid > stop:
                continue
            out.append((t.tid, t.status, t.user, t.desc, t.ext,
                        tuple(sorted(t.last_wins().items(), key=lambda kv: kv[0]))))
        return (('ok', tuple(out)),)

    def x_undoLog(self, first, last, pred=None):
        """(pred: the filter argument - first and last index the transactions that pass it, IStorageUndoable)"""
        if last < 0:
            last = first - last
        res = []
        i = 0
        for t in reversed(self.txns):
            if i >= last:
                break
            if t.status == 'p':
                break
            if t.status != ' ':
                continue
            if pred is not None and not pred(t.tid):
                continue
            if i >= first:
                res.append((t.tid, t.user, t.desc))
            i += 1
        return (('ok', tuple(res)),)


# --------------------------------------------------------------------------------------
# observation of a real storage

def _exc_name(e):
    from ZODB.POSException import POSKeyError
    if isinstance(e, POSKeyError):
        return 'POSKeyError'
    if isinstance(e, KeyError):
        return 'POSKeyError'
    return None


def q_loadBefore(st, oid, t):
    try:
        r = st.loadBefore(oid, t)
    except KeyError:
        return 'POSKeyError'
    if r is None:
        return 'None'
    return ('rev', r[0], r[1], r[2])


def q_load(st, oid):
    try:
        data, tid = st.load(oid, '')
    except KeyError:
        return 'POSKeyError'
    return ('ok', data, tid)


def q_getTid(st, oid):
    try:
        return ('ok', st.getTid(oid))
    except KeyError:
        return 'POSKeyError'


def q_loadSerial(st, oid, tid):
    try:
        return ('ok', st.loadSerial(oid, tid))
    except KeyError:
        return 'POSKeyError'


def q_history(st, oid, n):
    try:
        h = st.history(oid, size=n)
    except KeyError:
        return 'POSKeyError'
    return ('ok', tuple((d['tid'], d['user_name'], d['description']) for d in h))


def _ext_bytes(t):
    eb = getattr(t, 'extension_bytes', None)
    if eb is None:
        import pickle
        ext = getattr(t, 'extension', None)
        eb = pickle.dumps(ext, 3) if ext else b''
    return eb


def q_iterator(st, start=None, stop=None, ext_normal=None):
    out = []
    it = st.iterator(start, stop)
    try:
        for t in it:
            lw = {}
            for r in t:
                lw[r.oid] = r.data
                if r.tid != t.tid:
                    lw[r.oid] = ('BAD-RECORD-TID', r.tid)
            out.append((t.tid, t.status, t.user, t.description, _ext_bytes(t),
                        tuple(sorted(lw.items(), key=lambda kv: kv[0]))))
    finally:
        close = getattr(it, 'close', None)
        if close:
            close()
    return ('ok', tuple(out))


def tid_filter(tid):
    """an arbitrary property of a transaction for undoLog's filter argument"""
    return sum(tid) % 2 == 0


def q_undoLog(st, first, last, filtered=False):
    if filtered:
        r = st.undoLog(first, last, lambda d: tid_filter(base64.decodebytes(d['id'] + b'\n')))
    else:
        r = st.undoLog(first, last)
    return ('ok', tuple((base64.decodebytes(d['id'] + b'\n'), d['user_name'], d['description'])
                        for d in r))


def q_record_iternext(st):
    out = []
    nxt = None
    n = 0
    while True:
        try:
            oid, tid, data, nxt = st.record_iternext(nxt)
        except KeyError:
            out.append('POSKeyError')
            break
        except ValueError:
            out.append('empty')
            break
        out.append((oid, tid, data))
        n += 1
        if nxt is None or n > 10000:
            break
    return tuple(out)


def absent_oids(oids):
    """three oids not in the set: below, between, above (where they exist)"""
    ints = sorted(u64(o) for o in oids)
    out = []
    cands = [1, 0]
    if ints:
        cands += [ints[0] - 1, ints[-1] + 1, ints[-1] + 0x10000]
        for a, b in zip(ints, ints[1:]):
            if b - a > 1:
                cands.append(a + 1)
                break
    for c in cands:
        if c >= 0 and c not in ints and p64(c) not in out:
            out.append(p64(c))
    return out[:3]


def tid_boundaries(tids):
    s = {Z64, MAXTID, p64(1)}
    for t in tids:
        n = u64(t)
        s.update((p64(n - 1), t, p64(n + 1)))
    return sorted(s)


def short(v, n=40):
    s = repr(v)
    return s if len(s) <= n else s[:n] + '...(%d)' % len(s)


def fmt_answer(a):
    if isinstance(a, tuple):
        return '(' + ', '.join(fmt_answer(x) for x in a) + ')'
    if isinstance(a, bytes) and len(a) > 12:
        return short(a, 30)
    return repr(a)


class Battery:
    """Compares a real storage with the model; caps = set of capabilities:
    'history', 'undoLog', 'record_iternext', 'loadSerial', 'iterator', 'len-exact'."""

    def __init__(self, caps):
        self.caps = caps

    def compare(self, st, model, out, prop, where='', extra_tids=(), light=False):
        """append failures to out (driver.Outcome); returns number of queries"""
        n = 0
        oids = sorted(model.oids())
        univ = oids + absent_oids(oids)
        tids = model.tids()
        bounds = tid_boundaries(list(tids) + list(extra_tids))
        if light and len(bounds) > 8:
            bounds = bounds[:2] + bounds[-6:]

        def check(name, got, exp, *args):
            nonlocal n
            n += 1
            if got not in exp:
                out.fail((prop, name, 'mismatch'),
                         '%s%s%s -> %s ; model accepts %s' % (
                             where and where + ': ', name,
                             fmt_answer(tuple(args)), fmt_answer(got),
                             ' | '.join(fmt_answer(e) for e in exp)))
                return False
            return True

        got = st.lastTransaction()
        check('lastTransaction', got, (model.last_tid(),))
        for oid in univ:
            check('load', q_load(st, oid), model.x_load(oid), oid)
            check('getTid', q_getTid(st, oid), model.x_getTid(oid), oid)
            for t in bounds:
                if not check('loadBefore', q_loadBefore(st, oid, t), model.x_loadBefore(oid, t), oid, t):
                    break
            if 'loadSerial' in self.caps:
                for t in (tids if not light else tids[-3:]):
                    if not check('loadSerial', q_loadSerial(st, oid, t), model.x_loadSerial(oid, t), oid, t):
                        break
                check('loadSerial', q_loadSerial(st, oid, p64(u64(MAXTID) - 5)),
                      model.x_loadSerial(oid, p64(u64(MAXTID) - 5)), oid, 'non-revision')
            if 'history' in self.caps:
                for size in (1, 2, len(tids) + 1):
                    check('history', q_history(st, oid, size), model.x_history(oid, size), oid, size)
        if 'iterator' in self.caps:
            check('iterator', q_iterator(st), model.x_iterator())
            if tids and not light:
                for a in {tids[0], tids[len(tids) // 2], tids[-1]}:
                    for (s, e) in ((a, None), (None, a), (p64(u64(a) + 1), None), (None, p64(u64(a) - 1)),
                                   (a, a)):
                        check('iterator-range', q_iterator(st, s, e), model.x_iterator(s, e), s, e)
        if 'undoLog' in self.caps:
            for first, last in ((0, -20), (0, -1), (1, -2), (0, 3), (2, 5), (0, -1000)):
                check('undoLog', q_undoLog(st, first, last), model.x_undoLog(first, last), first, last)
            for first, last in ((0, -20), (0, 1), (1, 3), (0, -2)):
                check('undoLog-filtered', q_undoLog(st, first, last, True), model.x_undoLog(first, last, tid_filter), first, last)
        if 'record_iternext' in self.caps:
            got = q_record_iternext(st)
            exp = []
            for oid in oids:
                cur = model.current(oid)
                if cur[1] is None:
                    exp.append('POSKeyError')
                    break
                exp.append((oid, cur[0], cur[1]))
            if not oids:
                exp.append('empty')
            check('record_iternext', got, (tuple(exp),))
        if 'len-exact' in self.caps:
            check('len', len(st), (len(oids),))
        return n


# --------------------------------------------------------------------------------------
# model-free observation (differential / metamorphic oracles)

def scan_universe(st):
    """(oids, tids) as reported by the storage's own iterator"""
    oids, tids = set(), []
    it = st.iterator()
    try:
        for t in it:
            tids.append(t.tid)
            for r in t:
                oids.add(r.oid)
    finally:
        c = getattr(it, 'close', None)
        if c:
            c()
    return sorted(oids), tids


def observe(st, oids, tids, caps, skip=()):
    """dict query -> normal-form answer, for a fixed universe"""
    obs = {}
    univ = list(oids) + absent_oids(oids)
    bounds = tid_boundaries(tids)
    obs[('lastTransaction',)] = st.lastTransaction()
    for oid in univ:
        obs[('load', oid)] = q_load(st, oid)
        obs[('getTid', oid)] = q_getTid(st, oid)
        for t in bounds:
            obs[('loadBefore', oid, t)] = q_loadBefore(st, oid, t)
        if 'loadSerial' in caps:
            for t in tids:
                obs[('loadSerial', oid, t)] = q_loadSerial(st, oid, t)
        if 'history' in caps:
            obs[('history', oid)] = q_history(st, oid, len(tids) + 1)
    if 'iterator' in caps and 'iterator' not in skip:
        obs[('iterator',)] = q_iterator(st)
        if tids:
            for a in {tids[0], tids[len(tids) // 2], tids[-1]}:
                for (s, e) in ((a, None), (None, a), (p64(u64(a) + 1), None)):
                    obs[('iterator', s, e)] = q_iterator(st, s, e)
    if 'undoLog' in caps:
        obs[('undoLog',)] = q_undoLog(st, 0, -1000)
    if 'record_iternext' in caps:
        obs[('record_iternext',)] = q_record_iternext(st)
    if 'len-exact' in caps:
        obs[('len',)] = len(st)
    return obs


def diff_obs(a, b):
    """first differing query between two observations (same universe), or None"""
    for k in a:
        if k not in b:
            return k, a[k], '<missing>'
        if a[k] != b[k]:
            return k, a[k], b[k]
    for k in b:
        if k not in a:
            return k, '<missing>', b[k]
    return None


class CorruptGuard:
    @staticmethod
    def errors():
        from ZODB.FileStorage.format import CorruptedError
        return (CorruptedError,)
