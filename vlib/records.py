"""Harness-side pickler/parser of ZODB data records, independent of ZODB.serialize.

A record is pickle(class) + pickle(state) where state is a dict
{'id': uid, 'refs': [persistent references...], 'pad': 'x'*n, ...}.
The model therefore knows every record's references without asking referencesf."""
import io
import pickle


class Ref:
    """a persistent reference to write, in a chosen format"""
    __slots__ = ('oid', 'fmt', 'db')

    def __init__(self, oid, fmt='oc', db='other'):
        self.oid, self.fmt, self.db = oid, fmt, db


def _cls(name):
    from vlib import vclasses
    return getattr(vclasses, name)


def make_record(uid, refs=(), pad=0, cls='Node', extra=None):
    """refs: iterable of Ref or oid bytes"""
    f = io.BytesIO()
    klass = _cls(cls)

    def pid(obj):
        if isinstance(obj, Ref):
            if obj.fmt == 'oc':
                return (obj.oid, _cls('Node'))
            if obj.fmt == 'o':
                return obj.oid
            if obj.fmt == 'w':
                return ['w', (obj.oid,)]
            if obj.fmt == 'wd':
                return ['w', (obj.oid, obj.db)]
            if obj.fmt == 'm':
                return ['m', (obj.db, obj.oid, _cls('Node'))]
            if obj.fmt == 'n':
                return ['n', (obj.db, obj.oid)]
            raise ValueError(obj.fmt)
        return None
    p = pickle.Pickler(f, 3)
    p.persistent_id = pid
    p.dump(klass)
    state = {'id': uid, 'refs': [r if isinstance(r, Ref) else Ref(r) for r in refs],
             'pad': b'\xfe' * pad}
    if extra:
        state.update(extra)
    p = pickle.Pickler(f, 3)
    p.persistent_id = pid
    p.dump(state)
    return f.getvalue()


def parse_record(data):
    """-> (class name, state dict with references replaced by ('ref', pid))"""
    f = io.BytesIO(data)
    u = pickle.Unpickler(f)
    u.persistent_load = lambda pid: ('ref', _freeze(pid))
    klass = u.load()
    u = pickle.Unpickler(f)
    u.persistent_load = lambda pid: ('ref', _freeze(pid))
    state = u.load()
    return getattr(klass, '__name__', repr(klass)), state


def _freeze(x):
    if isinstance(x, (list, tuple)):
        return tuple(_freeze(i) for i in x)
    if isinstance(x, type):
        return x.__name__
    return x


def strong_refs(refs):
    """oids that referencesf is documented to return: ordinary same-database references"""
    return [r.oid if isinstance(r, Ref) else r for r in refs
            if not isinstance(r, Ref) or r.fmt in ('oc', 'o')]
