"""Harness-side pickler/parser of ZODB data records, independent of ZODB.serialize.

A record is pickle(class) + pickle(state) where state is a dict
{'id': uid, 'refs': [persistent references...], 'pad': 'x'*n, ...}.
The model therefore knows every record's references without asking referencesf."""
import io
import pickle


class Ref:
    """a persistent reference to write, in a chosen format"""
    __slots__ = ('oid', 'fmt', 'db')

    def __init__(self, oid, fmt='oc', db='other'):
        self.oid, self.fmt, self.db = oid, fmt, db


def _cls(name):
    from vlib import vclasses
    return getattr(vclasses, name)


# filler of the padding (None: 0xfe bytes).  C09 fills with bytes that read like a transaction header, a data record header
# and a trailing transaction length, repeated: wherever a stale position lands in it, a scan finds "structure"
PAD_PATTERN = None


def header_like_pattern():
    """73 bytes: transaction header (status ' ', no metadata, length 65) + data record header with a non-zero version
    length (which no current file has: DataHeader refuses it with ValueError) + the redundant transaction length"""
    import struct
    th = b'\x03\xf4\x7f\x00\x00\x00\x00\x01' + struct.pack('>Q', 65) + b' ' + b'\0\0' * 3
    dh = b'\0' * 7 + b'\x01' + b'\x03\xf4\x7f\x00\x00\x00\x00\x01' + b'\0' * 8 + b'\0' * 8 + b'\0\x01' + struct.pack('>Q', 5)
    assert len(th) == 23 and len(dh) == 42
    return th + dh + struct.pack('>Q', 65)


def _pattern_pad(n, uid):
    # (rotated differently in every record: every alignment relative to a given file position occurs)
    rot = (uid if isinstance(uid, int) else 0) % len(PAD_PATTERN)
    p = PAD_PATTERN[rot:] + PAD_PATTERN[:rot]
    return (p * (n // len(p) + 1))[:n]


def make_record(uid, refs=(), pad=0, cls='Node', extra=None):
    """refs: iterable of Ref or oid bytes"""
    f = io.BytesIO()
    klass = _cls(cls)

    def pid(obj):
        if isinstance(obj, Ref):
            if obj.fmt == 'oc':
                return (obj.oid, _cls('Node'))
            if obj.fmt == 'o':
                return obj.oid
            if obj.fmt == 'w':
                return ['w', (obj.oid,)]
            if obj.fmt == 'wd':
                return ['w', (obj.oid, obj.db)]
            if obj.fmt == 'm':
                return ['m', (obj.db, obj.oid, _cls('Node'))]
            if obj.fmt == 'n':
                return ['n', (obj.db, obj.oid)]
            raise ValueError(obj.fmt)
        return None
    p = pickle.Pickler(f, 3)
    p.persistent_id = pid
    p.dump(klass)
    state = {'id': uid, 'refs': [r if isinstance(r, Ref) else Ref(r) for r in refs],
             'pad': b'\xfe' * pad if PAD_PATTERN is None else _pattern_pad(pad, uid)}
    if extra:
        state.update(extra)
    p = pickle.Pickler(f, 3)
    p.persistent_id = pid
    p.dump(state)
    return f.getvalue()


def parse_record(data):
    """-> (class name, state dict with references replaced by ('ref', pid))"""
    f = io.BytesIO(data)
    u = pickle.Unpickler(f)
    u.persistent_load = lambda pid: ('ref', _freeze(pid))
    klass = u.load()
    u = pickle.Unpickler(f)
    u.persistent_load = lambda pid: ('ref', _freeze(pid))
    state = u.load()
    return getattr(klass, '__name__', repr(klass)), state


def _freeze(x):
    if isinstance(x, (list, tuple)):
        return tuple(_freeze(i) for i in x)
    if isinstance(x, type):
        return x.__name__
    return x


def strong_refs(refs):
    """oids that referencesf is documented to return: ordinary same-database references"""
    return [r.oid if isinstance(r, Ref) else r for r in refs
            if not isinstance(r, Ref) or r.fmt in ('oc', 'o')]
