"""Shared driver: workers, Hypothesis glue, known findings, ddmin, evidence, exit codes.

A *check module* (checks/cNN_*.py) provides

    PROPERTY, LEVEL, RULE, ASSUMPTIONS, TECH
    BUDGET = {'quick': {'examples': N, 'workers': W}, 'thorough': {...}}
    strategy(tier)            -> Hypothesis strategy producing a JSON-able case
    execute(case)             -> Outcome          (pure function of case and code)
    extra_cases(tier, seed, worker, nworkers) -> iterable of cases (optional;
                                 deterministic / exhaustive slices, fixed shapes)

Exit codes: 0 held (KNOWN-FINDING lines allowed), 1 VIOLATION, 2 harness error.
"""
import hashlib
import json
import multiprocessing
import os
import pickle
import shutil
import signal
import sys
import tempfile
import time
import traceback

VERIF = os.path.dirname(os.path.dirname(os.path.abspath(__file__)))
REPO_SRC = os.path.join(os.environ.get('VERIF_REPO', '/repo'), 'src')


class Failure:
    def __init__(self, sig, msg):
        self.sig = tuple(str(s) for s in sig)
        self.msg = str(msg)[:4000]

    def __repr__(self):
        return 'Failure(%r, %r)' % (self.sig, self.msg[:200])


class Outcome:
    """Result of executing one case."""

    def __init__(self):
        self.failures = []      # [Failure]
        self.nontrivial = False
        self.classes = set()    # labels for the distribution histogram
        self.evals = 1          # evaluations this case stands for
        self.nt_keys = None     # optional: iterable of hashables, each a distinct
        #                         non-trivial sub-case (crash image, query...)
        self.excluded = 0       # excluded-by-construction counter

    def fail(self, sig, msg=''):
        self.failures.append(Failure(sig, msg))

    def label(self, *names):
        self.classes.update(names)


class HarnessError(Exception):
    pass


class CaseTimeout(BaseException):
    pass


def canon(case):
    return json.dumps(case, sort_keys=True, separators=(',', ':'))


def case_hash(case):
    return hashlib.sha1(canon(case).encode()).digest()[:10]


# --------------------------------------------------------------------------------------
# scratch directories

_SCRATCH_ROOT = None


def scratch_root():
    global _SCRATCH_ROOT
    if _SCRATCH_ROOT is None or not os.path.isdir(_SCRATCH_ROOT):
        base = os.environ.get('VERIF_SCRATCH')
        if not base:
            base = '/dev/shm' if os.access('/dev/shm', os.W_OK) else None
        _SCRATCH_ROOT = tempfile.mkdtemp(prefix='verif-%d-' % os.getpid(), dir=base)
    return _SCRATCH_ROOT


_case_dir_n = [0]


def newdir():
    _case_dir_n[0] += 1
    d = os.path.join(scratch_root(), 'd%d' % _case_dir_n[0])
    os.mkdir(d)
    return d


def clean_scratch(keep_root=True):
    global _SCRATCH_ROOT
    r = _SCRATCH_ROOT
    if r and os.path.isdir(r):
        for n in os.listdir(r):
            p = os.path.join(r, n)
            if os.path.isdir(p) and not os.path.islink(p):
                _rmtree(p)
            else:
                try:
                    os.unlink(p)
                except OSError:
                    pass
        if not keep_root:
            _rmtree(r)
            _SCRATCH_ROOT = None


def _rmtree(p):
    def onerr(func, path, exc):
        try:
            os.chmod(os.path.dirname(path), 0o700)
            os.chmod(path, 0o700)
            func(path)
        except OSError:
            pass
    shutil.rmtree(p, onerror=onerr)


# --------------------------------------------------------------------------------------
# running one case safely

def _zodb_frame(tb):
    """innermost frame inside the code under test, as 'file:function'."""
    best = None
    for fs in traceback.extract_tb(tb):
        fn = fs.filename.replace('\\', '/')
        if '/ZODB/' in fn and '/verif/' not in fn:
            best = '%s:%s' % (fn.split('/ZODB/', 1)[1], fs.name)
    return best


def run_case(mod, case, timeout=None):
    """execute(case) -> Outcome; escaping exceptions are classified:
    with a frame inside ZODB -> failure 'unexpected-exception'; otherwise harness error."""
    timeout = timeout or getattr(mod, 'CASE_TIMEOUT', 40)

    def on_alarm(signum, frame):
        raise CaseTimeout()
    old = signal.signal(signal.SIGALRM, on_alarm)
    signal.alarm(timeout)
    try:
        try:
            out = mod.execute(case)
        except CaseTimeout as e:
            where = _zodb_frame(e.__traceback__)
            if where is None:
                raise HarnessError('case exceeded watchdog of %ds: %s' % (timeout, canon(case)[:2000]))
            # the code under test did not return: reported as a finding (not decided by time alone:
            # cases of this check take milliseconds, the watchdog is 3-4 orders of magnitude above)
            out = Outcome()
            out.fail((mod.PROPERTY, 'execute', 'hang', where),
                     'no progress for %ds inside %s\n%s' % (timeout, where, ''.join(traceback.format_tb(e.__traceback__)[-6:])))
        except (KeyboardInterrupt, SystemExit, HarnessError):
            raise
        except BaseException as e:
            where = _zodb_frame(e.__traceback__)
            if where is None:
                raise HarnessError('exception in harness for case %s\n%s' % (
                    canon(case)[:3000], traceback.format_exc()))
            out = Outcome()
            out.fail((mod.PROPERTY, 'execute', 'unexpected-exception',
                      type(e).__name__, where), traceback.format_exc())
    finally:
        signal.alarm(0)
        signal.signal(signal.SIGALRM, old)
        clean_scratch()
    return out


# --------------------------------------------------------------------------------------
# worker

class Acc:
    def __init__(self):
        self.evaluations = 0
        self.cases = 0
        self.nt = set()
        self.classes = {}
        self.samples = []
        self.largest = None
        self.failures = {}     # sig -> [count, smallest case, msg]
        self.excluded = 0

    def add(self, case, out):
        self.cases += 1
        self.evaluations += out.evals
        self.excluded += out.excluded
        for c in out.classes:
            self.classes[c] = self.classes.get(c, 0) + 1
        if out.nt_keys is not None:
            for k in out.nt_keys:
                self.nt.add(hashlib.sha1(repr(k).encode()).digest()[:10]
                            if not isinstance(k, bytes) else k[:10])
        elif out.nontrivial:
            self.nt.add(case_hash(case))
        if out.nontrivial or out.nt_keys:
            s = canon(case)
            if len(self.samples) < 2 and len(s) < 3000:
                self.samples.append(case)
            if len(s) < 6000 and (self.largest is None or len(s) > len(canon(self.largest))):
                self.largest = case
        for f in out.failures:
            ent = self.failures.get(f.sig)
            if ent is None:
                self.failures[f.sig] = [1, case, f.msg]
            else:
                ent[0] += 1
                if len(canon(case)) < len(canon(ent[1])):
                    ent[1], ent[2] = case, f.msg

    def merge(self, o):
        self.evaluations += o.evaluations
        self.cases += o.cases
        self.excluded += o.excluded
        self.nt |= o.nt
        for k, v in o.classes.items():
            self.classes[k] = self.classes.get(k, 0) + v
        for s in o.samples:
            if len(self.samples) < 4:
                self.samples.append(s)
        if o.largest is not None and (self.largest is None or
                                      len(canon(o.largest)) > len(canon(self.largest))):
            self.largest = o.largest
        for sig, (n, case, msg) in o.failures.items():
            ent = self.failures.get(sig)
            if ent is None:
                self.failures[sig] = [n, case, msg]
            else:
                ent[0] += n
                if len(canon(case)) < len(canon(ent[1])):
                    ent[1], ent[2] = case, msg


MAX_UNKNOWN_SIGS = 6


def worker_main(modname, tier, seed, w, nw, examples, outpath, known_sigs):
    try:
        mod = load_check(modname)
        acc = Acc()
        unknown = set()

        curpath = outpath + '.cur'

        def handle(case):
            # remembered so that a crash of the interpreter itself can be attributed to a case
            with open(curpath, 'w') as f:
                f.write(canon(case))
            out = run_case(mod, case)
            acc.add(case, out)
            for f in out.failures:
                if f.sig not in known_sigs:
                    unknown.add(f.sig)
                if len(f.sig) > 2 and f.sig[2] == 'hang':
                    # every further hanging case would cost a full watchdog period: stop this worker
                    unknown.update(('stop', i) for i in range(MAX_UNKNOWN_SIGS))

        if hasattr(mod, 'extra_cases'):
            for case in mod.extra_cases(tier, seed, w, nw):
                handle(case)
                if len(unknown) >= MAX_UNKNOWN_SIGS:
                    break
        n = examples // nw + (1 if w < examples % nw else 0)
        if n > 0 and len(unknown) < MAX_UNKNOWN_SIGS:
            import hypothesis
            from hypothesis import HealthCheck, Phase, given, settings

            class Stop(Exception):
                pass

            @hypothesis.seed(seed * 1000 + w)
            @settings(max_examples=n, database=None, deadline=None,
                      phases=[Phase.generate], derandomize=False,
                      report_multiple_bugs=False,
                      suppress_health_check=list(HealthCheck))
            @given(mod.strategy(tier))
            def test(case):
                handle(case)
                if len(unknown) >= MAX_UNKNOWN_SIGS:
                    raise Stop()
            try:
                test()
            except Stop:
                pass
        with open(outpath, 'wb') as f:
            pickle.dump(('ok', acc), f)
    except BaseException:
        with open(outpath, 'wb') as f:
            pickle.dump(('error', traceback.format_exc()), f)
    finally:
        clean_scratch(keep_root=False)


# --------------------------------------------------------------------------------------
# shrinking (delta debugging over the JSON value)

def _paths(v, path=()):
    """yield (path, value) for every list and int inside v (lists first, outermost first)"""
    if isinstance(v, list):
        yield path, v
        for i, x in enumerate(v):
            yield from _paths(x, path + (i,))
    elif isinstance(v, dict):
        for k in sorted(v):
            yield from _paths(v[k], path + (k,))
    elif isinstance(v, int) and not isinstance(v, bool):
        yield path, v


def _get(v, path):
    for p in path:
        v = v[p]
    return v


def _set(v, path, new):
    if not path:
        return new
    v = json.loads(json.dumps(v))
    c = v
    for p in path[:-1]:
        c = c[p]
    c[path[-1]] = new
    return v


def ddmin(mod, case, sig, budget):
    def fails(c):
        try:
            out = run_case(mod, c)
        except HarnessError:
            return False    # candidate left the domain of the interpreter
        return any(f.sig == sig for f in out.failures)
    runs = 0
    progress = True
    while progress and runs < budget:
        progress = False
        for path, val in list(_paths(case)):
            if runs >= budget:
                break
            try:
                cur = _get(case, path)
            except (KeyError, IndexError, TypeError):
                continue
            if cur != val:
                continue
            if isinstance(val, list) and val:
                n = len(val)
                chunk = max(n // 2, 1)
                while chunk >= 1 and runs < budget:
                    i = 0
                    changed = False
                    while i < len(_get(case, path)) and runs < budget:
                        cur = _get(case, path)
                        cand = _set(case, path, cur[:i] + cur[i + chunk:])
                        runs += 1
                        if fails(cand):
                            case = cand
                            progress = changed = True
                        else:
                            i += chunk
                    if chunk == 1:
                        break
                    chunk = max(chunk // 2, 1)
            elif isinstance(val, int) and val not in (0,):
                for new in (0, val // 2, val - 1 if val > 0 else val + 1):
                    if new == val or runs >= budget:
                        continue
                    cand = _set(case, path, new)
                    runs += 1
                    if fails(cand):
                        case = cand
                        progress = True
                        break
    return case, runs


# --------------------------------------------------------------------------------------
# known findings

def load_known(prop):
    p = os.path.join(VERIF, 'known_findings.json')
    if not os.path.exists(p):
        return []
    with open(p) as f:
        data = json.load(f)
    return [e for e in data.get('findings', []) if e['property'] == prop]


def load_check(modname):
    if REPO_SRC not in sys.path:
        sys.path.insert(0, REPO_SRC)
    if VERIF not in sys.path:
        sys.path.insert(0, VERIF)
    import importlib
    import logging
    logging.disable(logging.CRITICAL)
    import ZODB
    want = os.path.realpath(os.path.join(REPO_SRC, 'ZODB'))
    have = os.path.realpath(os.path.dirname(ZODB.__file__))
    if want != have:
        raise HarnessError('ZODB imported from %s, expected %s' % (have, want))
    return importlib.import_module('checks.' + modname)


def write_replay(prop, sig, case, msg):
    h = hashlib.sha1((canon(case) + repr(sig)).encode()).hexdigest()[:12]
    d = os.environ.get('VERIF_FOUND_DIR') or os.path.join(VERIF, 'replays', 'found')
    os.makedirs(d, exist_ok=True)
    path = os.path.join(d, '%s-%s.json' % (prop, h))
    with open(path, 'w') as f:
        json.dump({'property': prop, 'signature': list(sig), 'message': msg,
                   'case': case}, f, indent=1, sort_keys=True)
    return path


def validate_evidence(ev):
    try:
        import jsonschema
    except ImportError:
        return
    with open('/root/.vp/EVIDENCE.schema.json') as f:
        schema = json.load(f)
    jsonschema.validate(ev, schema)


def main(modname, argv):
    import argparse
    ap = argparse.ArgumentParser()
    ap.add_argument('--tier', default=os.environ.get('VERIF_TIER') or 'quick',
                    choices=['quick', 'thorough'])
    ap.add_argument('--replay')
    ap.add_argument('--examples', type=int)
    ap.add_argument('--workers', type=int)
    ap.add_argument('--no-evidence', action='store_true')
    args = ap.parse_args(argv)

    if os.environ.get('PYTHONHASHSEED') != '0':
        env = dict(os.environ, PYTHONHASHSEED='0', PYTHONDONTWRITEBYTECODE='1')
        os.execve(sys.executable, [sys.executable] + sys.argv, env)

    t0 = time.time()
    try:
        mod = load_check(modname)
    except BaseException:
        traceback.print_exc()
        return 2
    prop = mod.PROPERTY
    seed = int(os.environ.get('VERIF_SEED', '1') or 1)
    known = load_known(prop)
    open_sigs = {tuple(e['signature']): e for e in known if e['status'] == 'open'}

    if args.replay:
        with open(args.replay) as f:
            rep = json.load(f)
        try:
            out = run_case(mod, rep['case'])
        except HarnessError as e:
            print('HARNESS-ERROR', e)
            return 2
        finally:
            clean_scratch(keep_root=False)
        rc = 0
        for f in out.failures:
            if f.sig in open_sigs:
                print('KNOWN-FINDING: property=%s %s' % (prop, open_sigs[f.sig]['what']))
            else:
                print('VIOLATION property=%s replay=%s' % (prop, args.replay))
                print('  signature:', f.sig)
                print('  ' + f.msg.replace('\n', '\n  ')[:3000])
                rc = 1
        if not out.failures:
            print('replay: no failure')
        return rc

    budget = dict(mod.BUDGET[args.tier])
    if args.examples is not None:
        budget['examples'] = args.examples
    if os.environ.get('VERIF_EXAMPLES'):
        budget['examples'] = int(os.environ['VERIF_EXAMPLES'])
    if args.workers:
        budget['workers'] = args.workers
    nw = max(1, min(budget['workers'], os.cpu_count() or 1))

    violations = []     # (sig, replay path, msg)
    known_lines = []
    total = Acc()

    # 1. fixed and open replays first
    try:
        for e in known:
            rp = os.path.join(VERIF, e['replay'])
            with open(rp) as f:
                rep = json.load(f)
            out = run_case(mod, rep['case'])
            total.add(rep['case'], out)
            sig = tuple(e['signature'])
            hit = [f for f in out.failures]
            if e['status'] == 'open':
                if any(f.sig == sig for f in hit):
                    known_lines.append('KNOWN-FINDING: property=%s %s' % (prop, e['what']))
                for f in hit:
                    if f.sig != sig and f.sig not in open_sigs:
                        violations.append((f.sig, rp, f.msg))
            else:
                for f in hit:
                    if f.sig not in open_sigs:
                        violations.append((f.sig, rp, f.msg))
        total.failures = {}
    except HarnessError as e:
        print('HARNESS-ERROR', e)
        clean_scratch(keep_root=False)
        return 2
    clean_scratch(keep_root=False)

    # 2. generated search in workers
    ctx = multiprocessing.get_context('fork')
    resdir = tempfile.mkdtemp(prefix='verif-res-')
    procs = []
    for w in range(nw):
        outp = os.path.join(resdir, 'w%d.pkl' % w)
        p = ctx.Process(target=worker_main, args=(
            modname, args.tier, seed, w, nw, budget['examples'], outp, set(open_sigs)))
        p.start()
        procs.append((p, outp))
    limit = budget.get('wall_limit', 3600 if args.tier == 'quick' else 6 * 3600)
    deadline = time.time() + limit
    harness_errors = []
    crashes = []
    for p, outp in procs:
        p.join(max(1, deadline - time.time()))
        if p.is_alive():
            p.kill()
            harness_errors.append('worker timed out after %ds' % limit)
            continue
        if not os.path.exists(outp):
            if p.exitcode is not None and p.exitcode < 0 and os.path.exists(outp + '.cur'):
                # the interpreter crashed (signal) while executing a case: that is a finding, not a
                # harness error; the case is kept as the replay
                with open(outp + '.cur') as f:
                    case = json.loads(f.read())
                sig = (prop, 'execute', 'interpreter-crash', 'signal %d' % -p.exitcode)
                path = write_replay(prop, sig, case, 'worker process died with signal %d while executing this case' % -p.exitcode)
                crashes.append((sig, path, 'the Python process died with signal %d while executing this case' % -p.exitcode))
                continue
            harness_errors.append('worker died without result (exit %s)' % p.exitcode)
            continue
        with open(outp, 'rb') as f:
            kind, val = pickle.load(f)
        if kind == 'error':
            harness_errors.append(val)
        else:
            total.merge(val)
    shutil.rmtree(resdir, ignore_errors=True)
    if harness_errors:
        print('HARNESS-ERROR')
        for h in harness_errors[:3]:
            print(h)
        return 2

    violations.extend(crashes)
    # 3. classify, shrink
    known_hits = 0
    ddbudget = 150 if args.tier == 'quick' else 600
    try:
        for sig, (n, case, msg) in sorted(total.failures.items()):
            if sig in open_sigs:
                known_hits += n
                line = 'KNOWN-FINDING: property=%s %s' % (prop, open_sigs[sig]['what'])
                if line not in known_lines:
                    known_lines.append(line)
                continue
            hang = len(sig) > 2 and sig[2] == 'hang'
            small, runs = (case, 0) if hang else ddmin(mod, case, sig, ddbudget)
            try:
                out = Outcome() if hang else run_case(mod, small)
            except HarnessError:
                # (the shrunk case left the interpreter's domain on this run - a failure that is not
                # reproducible step by step under the changed code; report the original case)
                small = case
                out = run_case(mod, small)
            m = [f.msg for f in out.failures if f.sig == sig]
            path = write_replay(prop, sig, small, m[0] if m else msg)
            violations.append((sig, path, (m[0] if m else msg) + '\n(seen %d times; shrunk in %d runs)' % (n, runs)))
    except HarnessError as e:
        print('HARNESS-ERROR', e)
        return 2
    finally:
        clean_scratch(keep_root=False)

    samples = list(total.samples)
    if total.largest is not None and total.largest not in samples:
        samples.append(total.largest)
    ncases = max(total.cases, 1)
    ev = {
        'property_id': prop, 'tier': args.tier, 'seed': seed, 'level': mod.LEVEL,
        'coverage': {
            'evaluations': total.evaluations,
            'generated_cases': total.cases,
            'distinct_nontrivial': len(total.nt),
            'rule': mod.RULE,
            'samples': samples[:5],
            'classes': {k: round(v / ncases, 4) for k, v in sorted(total.classes.items())},
            'known_finding_hits': known_hits,
            'excluded_by_construction': total.excluded,
            'workers': nw,
        },
        'assumptions': list(getattr(mod, 'ASSUMPTIONS', [])),
        'wall_s': round(time.time() - t0, 2),
        'violations': len(violations),
    }
    if hasattr(mod, 'evidence_extra'):
        ev['coverage'].update(mod.evidence_extra(args.tier))
    if not args.no_evidence:
        try:
            validate_evidence(ev)
        except Exception as e:
            print('HARNESS-ERROR evidence does not validate:', e)
            return 2
        os.makedirs(os.path.join(VERIF, 'evidence'), exist_ok=True)
        with open(os.path.join(VERIF, 'evidence', prop + '.json'), 'w') as f:
            json.dump(ev, f, indent=1, sort_keys=True)
    for line in known_lines:
        print(line)
    print('%s %s seed=%d cases=%d evaluations=%d nontrivial=%d wall=%.1fs' % (
        prop, args.tier, seed, total.cases, total.evaluations, len(total.nt), time.time() - t0))
    cl = ev['coverage']['classes']
    if cl:
        print('  classes: ' + ', '.join('%s=%.2f' % kv for kv in cl.items()))
    if violations:
        for sig, path, msg in violations:
            print('VIOLATION property=%s replay=%s' % (prop, path))
            print('  signature:', sig)
            print('  ' + msg.replace('\n', '\n  ')[:3000])
        return 1
    return 0
