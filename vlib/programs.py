"""Storage programs (raw IStorage API): Hypothesis strategies and the interpreter that
runs a program against a real storage and the reference model simultaneously."""
import base64
import os
import pickle

from hypothesis import strategies as st

from vlib import clock, records
from vlib.model import MAXTID, Z64, Battery, Model, Txn, p64, u64

META_LENS = [0, 0, 0, 1, 2, 5, 30, 255, 256, 65534, 65535]
PAD_SIZES = [0, 0, 1, 5, 17, 40, 300, 8100, 8192, 8300, 70000]


def ext_bytes(n):
    """extension bytes of exactly n bytes (a pickled dict), n == 0 -> b''.
    Lengths that a pickled dict cannot have are rounded up to the smallest possible."""
    if n <= 0:
        return b''
    base = len(pickle.dumps({'p': b''}, 3))
    k = max(0, n - base)
    for _ in range(8):
        b = pickle.dumps({'p': b'e' * k}, 3)
        if len(b) == n or k == 0 and len(b) > n:
            return b
        k = max(0, k - (len(b) - n))
    return pickle.dumps({'p': b'e' * k}, 3)


# --------------------------------------------------------------------------------------
# strategies

def rec_strategy(allow):
    opts = [st.tuples(st.just('new'), st.sampled_from(PAD_SIZES)),
            st.tuples(st.just('upd'), st.integers(0, 30), st.sampled_from(PAD_SIZES)),
            st.tuples(st.just('upd'), st.integers(0, 30), st.sampled_from(PAD_SIZES))]
    if 'stale' in allow:
        opts.append(st.tuples(st.just('stale'), st.integers(0, 30), st.integers(1, 3)))
        # the storage-side test behind readCurrent: (third element 0: the current serial; > 0: an older one - refused)
        opts.append(st.tuples(st.just('check'), st.integers(0, 30), st.sampled_from([0, 0, 1, 2])))
    if 'del' in allow:
        # (third element > 0: with the serial of an older revision - refused like a stale store)
        opts.append(st.tuples(st.just('del'), st.integers(0, 30), st.sampled_from([0, 0, 1, 2])))
    if 'undo' in allow:
        opts.append(st.tuples(st.just('undo'), st.integers(0, 6)))
        opts.append(st.tuples(st.just('undo'), st.integers(0, 2)))
    return st.one_of(*opts).map(list)


def meta_strategy():
    small = st.sampled_from([0, 0, 0, 1, 3, 30])
    big = st.sampled_from(META_LENS)
    return st.one_of(st.tuples(small, small, small), st.tuples(small, small, small),
                     st.tuples(big, big, big)).map(list)


def end_strategy():
    return st.one_of(st.just(['finish']), st.just(['finish']), st.just(['finish']),
                     st.tuples(st.just('abort'), st.integers(-1, 3)).map(list))


def txn_strategy(allow, max_recs=4):
    return st.tuples(st.just('txn'), meta_strategy(),
                     st.lists(rec_strategy(allow), min_size=0, max_size=max_recs),
                     end_strategy()).map(list)


def restore_strategy():
    rec = st.one_of(
        st.tuples(st.just('new'), st.integers(0, 2 ** 16), st.sampled_from(PAD_SIZES)),
        # (ids in other 6-byte prefix groups: the oid index then has several buckets)
        st.tuples(st.just('new'), st.sampled_from([2 ** 16 + 1, 2 ** 17 + 5, 2 ** 24 + 1, 2 ** 40 + 3]), st.sampled_from(PAD_SIZES)),
        st.tuples(st.just('upd'), st.integers(0, 30), st.sampled_from(PAD_SIZES)),
        st.tuples(st.just('gone'), st.integers(0, 30)),
        st.tuples(st.just('copy'), st.integers(0, 30), st.integers(0, 3)),
    ).map(list)
    return st.tuples(st.just('restore'), st.integers(1, 3), st.sampled_from([' ', ' ', ' ', 'p']),
                     st.lists(rec, min_size=0, max_size=3), meta_strategy()).map(list)


def program_strategy(kind, max_steps, allow=None):
    """allow: subset of {'stale','del','undo','restore','reopen','clock'}"""
    if allow is None:
        allow = {'stale', 'clock'}
        if kind.startswith('fs'):
            allow |= {'del', 'undo', 'restore', 'reopen'}
    steps = [txn_strategy(allow), txn_strategy(allow), txn_strategy(allow)]
    if 'restore' in allow:
        steps.append(restore_strategy())
    if 'reopen' in allow:
        steps.append(st.tuples(st.just('reopen'), st.booleans()).map(list))
    if 'pack' in allow:
        steps.append(st.tuples(st.just('pack'), st.integers(0, 12), st.sampled_from([0, 0, 1])).map(list))
    if 'clock' in allow:
        steps.append(st.tuples(st.just('clock'), st.sampled_from(['stall', 'back', 'fwd']),
                               st.integers(1, 100)).map(list))
    return st.lists(st.one_of(*steps), min_size=1, max_size=max_steps)


# --------------------------------------------------------------------------------------
# storages

def make_storage(kind, d, **kw):
    """kind: fs | fs-nogc | mapping | demo | demo-fs (changes in a FileStorage)"""
    from ZODB.DemoStorage import DemoStorage
    from ZODB.FileStorage import FileStorage
    from ZODB.MappingStorage import MappingStorage
    if kind.startswith('fs'):
        return FileStorage(os.path.join(d, 'Data.fs'), **kw)
    if kind == 'mapping':
        return MappingStorage()
    if kind == 'demo':
        return DemoStorage()
    if kind == 'demo-fs':
        return DemoStorage(changes=FileStorage(os.path.join(d, 'Changes.fs'), **kw))
    raise ValueError(kind)


CAPS = {
    'fs': {'history', 'undoLog', 'record_iternext', 'loadSerial', 'iterator', 'len-exact'},
    'mapping': {'history', 'loadSerial', 'iterator', 'len-exact'},
    'demo': {'history', 'loadSerial', 'iterator'},
    'demo-fs': {'history', 'loadSerial', 'iterator', 'undoLog'},
}


class Step:
    """what happened in the last interpreted step (for class labels)"""


class StorageRunner:
    """Runs storage programs; self.out collects failures (driver.Outcome)."""

    def __init__(self, kind, d, out, prop, battery_light=False, storage=None, model=None):
        self.kind = kind
        self.dir = d
        self.out = out
        self.prop = prop
        self.clock = clock.CLOCK
        self.storage = storage if storage is not None else make_storage(kind, d)
        self.model = model if model is not None else Model()
        self.oids = []            # symbolic index -> oid
        self.uid = 0
        self.battery = Battery(CAPS[kind.replace('-nogc', '')])
        self.light = battery_light
        self.committed = 0
        self.labels = set()
        self.issued = set()
        self.first_answer_empty_txn = None

    # ---- helpers
    def fail(self, oracle, kind, msg):
        self.out.fail((self.prop, oracle, kind), msg)

    def new_uid(self):
        self.uid += 1
        return self.uid

    def tmeta(self, meta):
        from ZODB.Connection import TransactionMetaData
        ul, dl, el = meta
        user = b'u' * ul
        desc = b'd' * dl
        ext = ext_bytes(el)
        return TransactionMetaData(user, desc, ext), user, desc, ext

    def meta_too_long(self, user, desc, ext):
        return len(user) > 65535 or len(desc) > 65535 or len(ext) > 65535

    def pick_oid(self, i):
        if not self.oids:
            return None
        return self.oids[i % len(self.oids)]

    def cur_serial(self, oid):
        cur = self.model.current(oid)
        return cur[0] if cur else Z64

    # ---- the model of undo (DESIGN C06)
    def plan_undo(self, txn, pending):
        """-> ('ok'|'either'|'error', [(oid, data)])  for undoing model txn `txn`
        given records already written in this undo transaction (pending: oid -> data)."""
        if txn.status != ' ':
            return 'error', []
        verdict = 'ok'
        recs = []
        for oid, t_data in txn.last_wins().items():
            revs = self.model.revisions(oid)
            before = [r for r in revs if r[0] < txn.tid]
            after = [r for r in revs if r[0] > txn.tid]
            pre_absent = not before
            pre = before[-1][1] if before else None
            if not after and oid not in pending:
                recs.append((oid, pre))
                continue
            cur = pending[oid] if oid in pending else after[-1][1]
            if cur is None and t_data is None:
                verdict = 'either' if verdict == 'ok' else verdict
                recs.append((oid, pre))
                continue
            if cur is not None and t_data is not None and cur == t_data:
                recs.append((oid, pre))
                continue
            if cur is None or t_data is None:
                # current or undone record has no data: _loadBack fails -> UndoError
                return 'error', []
            if pre_absent:
                return 'error', []
            r = self.resolve(oid, t_data, cur, pre)
            if r is None:
                return 'error', []
            recs.append((oid, r))
        return verdict, recs

    def make_data(self, oid, pad, new):
        return records.make_record(self.new_uid(), pad=pad)

    def can_stale(self, oid):
        return True

    def after_commit(self, txn):
        """hook: model transaction just committed (may adjust its records)"""

    def undo_candidates(self):
        return [x for x in reversed(self.model.txns)]

    def resolve(self, oid, t_data, cur, pre):
        return None     # raw programs use classes without a resolver

    # ---- steps
    def run(self, program, check_each=True):
        for op in program:
            self.step(op)
            if check_each and op[0] != 'clock':
                self.check()
            if self.out.failures:
                break

    count_queries = True

    def check(self, where=''):
        n = self.battery.compare(self.storage, self.model, self.out, self.prop,
                                 where=where, light=self.light)
        if self.count_queries:
            self.out.evals += n

    def step(self, op):
        k = op[0]
        if k == 'txn':
            self.do_txn(op[1], op[2], op[3])
            self.clock.advance(1.0)
        elif k == 'restore' and self.kind.startswith('fs'):
            self.do_restore(*op[1:])
            self.clock.advance(1.0)
        elif k == 'reopen' and self.kind.startswith('fs'):
            self.reopen(op[1])
        elif k == 'clock':
            if op[1] == 'stall':
                self.clock.advance(-1.0)
                self.labels.add('clock-stall')
            elif op[1] == 'back':
                self.clock.advance(-float(op[2]) * 7)
                self.labels.add('clock-back')
            else:
                self.clock.advance(float(op[2]) * 3600)
        elif k == 'new_oid':
            self.alloc()
        elif k == 'pack':
            self.do_pack(op[1], op[2])

    def pack_time(self, k):
        """a time strictly between two transactions (or before the first / after the last)"""
        from persistent.TimeStamp import TimeStamp
        tids = self.model.tids()
        if not tids:
            return self.clock.now
        k = k % (len(tids) + 1)
        if k == 0:
            return TimeStamp(tids[0]).timeTime() - 0.5
        return TimeStamp(tids[k - 1]).timeTime() + 0.001

    def do_pack(self, k, gc):
        from ZODB.FileStorage.FileStorage import FileStorageError
        from ZODB.serialize import referencesf
        from ZODB.FileStorage.fspack import PackError
        t = self.pack_time(k)
        self.packed = True
        if Z64 not in self.model.oids() or self.model.current(Z64)[1] is None:
            gc = False      # garbage collection presupposes a root object
        try:
            self.storage.pack(t, referencesf, gc=bool(gc))
            self.labels.add('pack-gc' if gc else 'pack')
            import time as _t
            from persistent.TimeStamp import TimeStamp
            # which transactions did the pack rewrite?  read their status back from the iterator
            status = {}
            it = self.storage.iterator()
            for rt in it:
                status[rt.tid] = rt.status
            getattr(it, 'close', lambda: None)()
            for txn in self.model.txns:
                if status.get(txn.tid, 'p') != txn.status:
                    txn.status = 'p'
        except FileStorageError:
            self.labels.add('pack-refused')
        except (PackError, AssertionError) as e:
            # e.g. gc=False and an undo record after the pack time pointing to a non-current
            # revision before it (PackError 'Invalid backpointer transaction id', or the
            # 'tlen == th.tlen' assertion in copyOne when the record must be expanded): the pack
            # fails, the database must stay as it was (checked by the callers' oracles)
            if isinstance(e, AssertionError):
                import traceback
                if 'fspack.py' not in ''.join(traceback.format_tb(e.__traceback__)[-1:]):
                    raise
            self.labels.add('pack-failed')
        except ValueError:
            self.labels.add('pack-refused')      # MappingStorage: already packed later
        self.clock.advance(1.0)

    def alloc(self):
        oid = self.storage.new_oid()
        return oid

    def reopen(self, keep_index=True, **kw):
        self.storage.close()
        if not keep_index:
            for ext in ('.index',):
                p = os.path.join(self.dir, 'Data.fs' + ext)
                if os.path.exists(p):
                    os.remove(p)
        self.storage = make_storage(self.kind, self.dir, **kw)
        self.labels.add('reopen' if keep_index else 'reopen-noindex')

    def begin(self, t, **kw):
        self.storage.tpc_begin(t, **kw)

    def abort(self, t):
        self.aborting = True
        self.storage.tpc_abort(t)
        self.aborting = False

    def finish(self, t, f=None):
        return self.storage.tpc_finish(t, f) if f else self.storage.tpc_finish(t)

    injected = ()          # exception classes raised by injected faults (C05)
    probe = None           # callable(runner, t, phase) run inside open transactions (C05)
    just_aborted_after_vote = False

    def do_txn(self, meta, recs, end):
        s = self.storage
        t, user, desc, ext = self.tmeta(meta)
        self.in_finish = False
        self.aborting = False
        self.last_fault = None
        self.abort_error = None
        try:
            self._txn_body(t, user, desc, ext, meta, recs, end)
        except self.lenient_errors() as e:
            # after a pack the history model no longer predicts refusals (differential checks)
            self.labels.add('post-pack-refusal')
            if not self.aborting:
                s.tpc_abort(t)
        except self.injected as e:
            self.last_fault = e
            self.labels.add('fault-in-finish' if self.in_finish else 'fault-before-finish')
            if self.aborting:
                # the exception came out of tpc_abort itself: not called twice
                self.abort_error = e
                self.labels.add('abort-raised')
                return
            try:
                s.tpc_abort(t)
            except self.injected as e2:
                self.abort_error = e2
                self.labels.add('abort-raised')

    packed = False
    diverged = False
    can_undo = False
    skip_uncreated = False

    def lenient_errors(self):
        if not self.packed:
            return ()
        from ZODB.POSException import ConflictError, POSKeyError, UndoError
        return (ConflictError, POSKeyError, UndoError)

    def _txn_body(self, t, user, desc, ext, meta, recs, end):
        from ZODB.FileStorage.FileStorage import FileStorageError
        from ZODB.POSException import ConflictError, POSKeyError, UndoError
        s = self.storage
        before_last = self.model.last_tid()
        try:
            self.begin(t)
        except FileStorageError as e:
            if self.kind in ('fs', 'fs-nogc', 'demo-fs') and self.meta_too_long(user, desc, ext):
                self.labels.add('meta-too-long')
                self.abort(t)
                return
            raise
        if self.kind in ('fs', 'fs-nogc', 'demo-fs') and self.meta_too_long(user, desc, ext):
            self.fail('tpc_begin', 'accepted-overlong-metadata', 'lengths %r' % (meta,))
            self.abort(t)
            return
        abort_at = end[1] if end[0] == 'abort' else None
        written = []        # (oid, data)
        pending = {}
        undone_here = set()
        new_oids = []
        failed = False
        is_undo = False
        n = 0
        if abort_at == 0:
            self.abort(t)
            self.labels.add('abort-after-begin')
            return
        for r in recs:
            kind = r[0]
            if kind == 'new' or (kind in ('upd', 'stale', 'del') and not self.oids):
                oid = self.alloc()
                data = self.make_data(oid, r[-1] if kind in ('new', 'upd') else 0, True)
                s.store(oid, Z64, data, '', t)
                written.append((oid, data))
                pending[oid] = data
                new_oids.append(oid)
            elif kind == 'upd':
                oid = self.pick_oid(r[1])
                if oid in pending or (self.skip_uncreated and self.model.current(oid)[1] is None):
                    continue
                data = self.make_data(oid, r[2], False)
                s.store(oid, self.cur_serial(oid), data, '', t)
                written.append((oid, data))
                pending[oid] = data
            elif kind == 'stale':
                oid = self.pick_oid(r[1])
                revs = self.model.revisions(oid)
                if len(revs) < 2 or oid in pending or not self.can_stale(oid):
                    continue
                if revs[-1][1] is None and (not self.kind.startswith('fs') or self.packed):
                    # (an object that has been un-created meanwhile: file storages only - and not after a pack, which
                    # may have removed the object altogether: a store for its id is then a creation)
                    continue
                stale = revs[max(0, len(revs) - 1 - max(1, r[2]))][0]
                if revs[-1][1] is None:
                    # a writer that loaded the object before its creation was undone (or before it was deleted) commits
                    # now: a conflict like any other
                    older = [x for x in revs[:-1] if x[1] is not None]
                    if not older:
                        continue
                    stale = older[-1][0]
                    self.labels.add('stale-store-onto-uncreated-object')
                data = records.make_record(self.new_uid())
                try:
                    s.store(oid, stale, data, '', t)
                except ConflictError:
                    self.labels.add('conflict')
                    failed = True
                    break
                self.fail('store', 'stale-serial-accepted',
                          'store(%r, serial=%r) but current is %r' % (oid, stale, revs[-1][0]))
                failed = True
                break
            elif kind == 'check':
                oid = self.pick_oid(r[1])
                revs = self.model.revisions(oid)
                if not revs or oid in pending or revs[-1][1] is None or not hasattr(s, 'checkCurrentSerialInTransaction'):
                    continue
                if r[2] and len(revs) >= 2 and self.can_stale(oid):
                    stale = revs[max(0, len(revs) - 1 - r[2])][0]
                    try:
                        s.checkCurrentSerialInTransaction(oid, stale, t)
                    except ConflictError:
                        self.labels.add('conflict')
                        self.labels.add('stale-readcurrent-refused')
                        failed = True
                        break
                    self.fail('checkCurrentSerialInTransaction', 'stale-serial-accepted',
                              'checkCurrentSerialInTransaction(%r, %r) but current is %r' % (oid, stale, revs[-1][0]))
                    failed = True
                    break
                try:
                    s.checkCurrentSerialInTransaction(oid, revs[-1][0], t)
                except ConflictError as e:
                    self.fail('checkCurrentSerialInTransaction', 'current-serial-refused',
                              'checkCurrentSerialInTransaction(%r, current serial %r) raised %r' % (oid, revs[-1][0], e))
                    failed = True
                    break
                self.labels.add('readcurrent-verified')
            elif kind == 'del':
                if not self.kind.startswith('fs'):
                    continue
                oid = self.pick_oid(r[1])
                if oid in pending:
                    continue
                cur = self.model.current(oid)
                revs = self.model.revisions(oid)
                if len(r) > 2 and r[2] and 'stale' in getattr(self, 'allow', {'stale'}) and len(revs) >= 2 \
                        and cur[1] is not None and self.can_stale(oid):
                    stale = revs[max(0, len(revs) - 1 - r[2])][0]
                    try:
                        s.deleteObject(oid, stale, t)
                    except ConflictError:
                        self.labels.add('conflict')
                        self.labels.add('stale-delete-refused')
                        failed = True
                        break
                    self.fail('deleteObject', 'stale-serial-accepted',
                              'deleteObject(%r, serial=%r) but current is %r' % (oid, stale, cur[0]))
                    failed = True
                    break
                s.deleteObject(oid, cur[0], t)
                written.append((oid, None))
                pending[oid] = None
                self.labels.add('delete')
            elif kind == 'undo':
                if 'undoLog' not in self.battery.caps and not self.can_undo:
                    continue
                cands = self.undo_candidates()
                if not cands:
                    continue
                target = cands[r[1] % len(cands)]
                if target.tid in undone_here:
                    # the same transaction twice in one undo transaction: not a "choice of transactions to undo"
                    self.out.excluded += 1
                    continue
                undone_here.add(target.tid)
                verdict, urecs = self.plan_undo(target, pending)
                if getattr(target, 'maybe_packed', False) and verdict == 'ok':
                    verdict = 'either'      # a pack that freed nothing leaves the transaction undoable
                tid64 = base64.encodebytes(target.tid).rstrip()
                try:
                    s.undo(tid64, t)
                except UndoError as e:
                    if verdict == 'ok' and not self.packed:
                        self.fail('undo', 'refused', 'undo of %r refused (%s) but model says it applies'
                                  % (target.tid, e))
                    self.labels.add('undo-refused')
                    failed = True
                    break
                if verdict == 'error' and self.packed and target.status == ' ':
                    # after a pack the pre-state pointers may have been re-linked: the history model
                    # no longer predicts undo (C07's twin oracle covers pack+undo); stop following
                    self.diverged = True
                    self.labels.add('post-pack-undo-divergence')
                    failed = True
                    break
                if verdict == 'error':
                    self.fail('undo', 'accepted', 'undo of %r accepted but model says UndoError'
                              % (target.tid,))
                    failed = True
                    break
                for oid, data in urecs:
                    written.append((oid, data))
                    pending[oid] = data
                if is_undo:
                    self.labels.add('multi-undo')
                is_undo = True
                self.labels.add('undo')
                if any(rv[0] > target.tid for oid in target.last_wins() for rv in self.model.revisions(oid)):
                    self.labels.add('undo-with-later-revision')
                if target.kind == 'undo':
                    self.labels.add('undo-of-undo')
                if any(d is None for _, d in urecs):
                    self.labels.add('undo-of-creation')
            n += 1
            if abort_at is not None and abort_at > 0 and n >= abort_at:
                self.abort(t)
                self.labels.add('abort-after-store')
                return
        if failed:
            self.abort(t)
            return
        if self.probe:
            self.probe(self, t, 'stored')
        s.tpc_vote(t)
        if self.probe:
            self.probe(self, t, 'voted')
        if abort_at is not None:
            self.abort(t)
            self.labels.add('abort-after-vote')
            self.just_aborted_after_vote = True
            return
        got = []
        self.in_finish = True
        self.pending = Txn(None, ' ', user, desc, ext, written, 'undo' if is_undo else 'store')

        def callback(tid):
            got.append(tid)
            self.pending.tid = tid
        tid = self.finish(t, callback)
        self.in_finish = False
        if got != [tid]:
            self.fail('tpc_finish', 'callback', 'callback got %r, returned %r' % (got, tid))
        if not (isinstance(tid, bytes) and len(tid) == 8 and tid > before_last):
            self.fail('tpc_finish', 'tid-not-increasing',
                      'new tid %r after last %r' % (tid, before_last))
        for oid in new_oids:
            self.oids.append(oid)
        txn = Txn(tid, ' ', user, desc, ext, written, 'undo' if is_undo else 'store')
        self.after_commit(txn)
        self.model.add(txn)
        self.committed += 1
        if not written:
            self.labels.add('empty-txn')

    def do_restore(self, dt, status, recs, meta):
        s = self.storage
        t, user, desc, ext = self.tmeta(meta)
        if self.meta_too_long(user, desc, ext):
            return
        last = self.model.last_tid()
        # an explicit tid later than everything committed, as copy() guarantees
        lastn = max(u64(last), u64(s.lastTransaction()))
        if lastn == 0:
            import time as _t
            from persistent.TimeStamp import TimeStamp
            now = self.clock.now
            lastn = u64(TimeStamp(*(_t.gmtime(now)[:5] + (now % 60,))).raw())
        tid = p64(lastn + dt * 1000)
        s.tpc_begin(t, tid, status)
        written = []
        new_oids = []
        seen = set()
        for r in recs:
            if r[0] == 'new' or not self.oids:
                v = r[1] if r[0] == 'new' else 7
                oid = p64(((v % 5) << 16) + 0x100 + (v >> 3))    # several index buckets
                if oid in seen or oid in self.model.oids():
                    continue
                data = records.make_record(self.new_uid(), pad=r[2] if r[0] == 'new' else 0)
                s.restore(oid, tid, data, '', None, t)
                new_oids.append(oid)
            elif r[0] == 'upd':
                oid = self.pick_oid(r[1])
                if oid in seen:
                    continue
                data = records.make_record(self.new_uid(), pad=r[2])
                s.restore(oid, tid, data, '', None, t)
            elif r[0] == 'gone':
                oid = self.pick_oid(r[1])
                if oid in seen:
                    continue
                data = None
                s.restore(oid, tid, None, '', None, t)
                self.labels.add('restore-uncreate')
            elif r[0] == 'copy':
                # data living in an earlier transaction, passed with the prev_txn hint
                oid = self.pick_oid(r[1])
                if oid in seen:
                    continue
                revs = [x for x in self.model.revisions(oid) if x[1] is not None]
                if not revs:
                    continue
                ptid, data = revs[r[2] % len(revs)]
                s.restore(oid, tid, data, '', ptid, t)
                self.labels.add('restore-backpointer')
            seen.add(oid)
            written.append((oid, data))
        s.tpc_vote(t)
        got = self.finish(t)
        if got != tid:
            self.fail('tpc_finish', 'explicit-tid', 'began with %r finished with %r' % (tid, got))
        self.oids.extend(new_oids)
        self.model.add(Txn(tid, status, user, desc, ext, written, 'restore'))
        self.committed += 1
        self.labels.add('restore')

    def close(self):
        try:
            self.storage.close()
        except Exception:
            pass
