"""Thread programs under the deterministic scheduler (vlib/sched.py): committers, readers, allocators
and a packer on one DB.  The schedule is a generated list of small integers; the execution is a
pure function of (programs, schedule).  Oracles work on the event log and the final storage."""
import os

from hypothesis import strategies as st

from vlib import rawio, sched
from vlib.mvccprog import COUNTERS, NAMES, PLAIN, make_storage, populate

_DENSE = st.lists(st.sampled_from([0, 0, 0, 0, 0, 1, 1, 2, 3]), min_size=30, max_size=600)
# few targeted preemptions: run until the n-th yield point of a class, then hand over to thread k
_SYNC = st.tuples(st.sampled_from(['release', 'release', 'acquire', 'file']),
                  st.one_of(st.integers(1, 12), st.integers(1, 45)), st.integers(0, 3))
_FINE = st.tuples(st.sampled_from(['line', 'any']), st.one_of(st.integers(1, 60), st.integers(1, 450)), st.integers(0, 3))
# ... of one particular lock (named by the class that created it): 'after the 2nd release of the file pool's lock'
_NAMED = st.tuples(st.tuples(st.sampled_from(['release', 'release', 'acquire']),
                             st.sampled_from(['FilePool', 'FilePool', 'FileStorage', 'FileStorage', 'MVCCAdapterInstance',
                                              'MVCCAdapterInstance', 'MVCCAdapter', 'DB', 'MappingStorage', 'DemoStorage'])).map(':'.join),
                   st.one_of(st.integers(1, 4), st.integers(1, 12)), st.integers(0, 3))
_SEGMENTS = st.fixed_dictionaries({'segments': st.lists(st.one_of(_SYNC, _NAMED, _NAMED, _FINE).map(list), min_size=1, max_size=14)})
SCHEDULE = st.one_of(_DENSE, _SEGMENTS, _SEGMENTS)


def program_strategy(role):
    name = st.sampled_from(NAMES)
    if role == 'committer':
        op = st.one_of(st.tuples(st.just('write'), st.sampled_from(PLAIN)), st.tuples(st.just('write'), st.sampled_from(PLAIN)),
                       # a write that makes the transaction larger than a file buffer (8 KiB)
                       st.tuples(st.just('write'), st.sampled_from(PLAIN), st.just('big')),
                       st.tuples(st.just('inc'), st.sampled_from(COUNTERS), st.integers(1, 3)),
                       st.tuples(st.just('read'), name), st.tuples(st.just('commit')), st.tuples(st.just('commit')),
                       st.tuples(st.just('begin')), st.tuples(st.just('abort')), st.tuples(st.just('readcurrent'), name))
    elif role == 'reader':
        op = st.one_of(st.tuples(st.just('read'), name), st.tuples(st.just('read'), name), st.tuples(st.just('readall')),
                       st.tuples(st.just('begin')), st.tuples(st.just('minimize')), st.tuples(st.just('commit')),
                       # the storage asked directly, through the read paths that do not use the pooled file handles
                       st.tuples(st.just('probe'), name, st.integers(0, 4)))
    elif role == 'undoer':
        op = st.one_of(st.tuples(st.just('undo'), st.integers(0, 5)), st.tuples(st.just('undo'), st.integers(0, 1)),
                       st.tuples(st.just('read'), name), st.tuples(st.just('begin')))
    elif role == 'allocator':
        op = st.one_of(st.tuples(st.just('new_oid')), st.tuples(st.just('new_oid')), st.tuples(st.just('add_commit')))
    else:
        raise ValueError(role)
    free = st.lists(op.map(list), min_size=2, max_size=8)
    if role == 'reader':
        # the same object read in consecutive transactions (stale cache entries show up in the later ones)
        again = st.tuples(name, st.sampled_from(['begin', 'commit']), st.booleans()).map(
            lambda t: [['read', t[0]], [t[1]], ['read', t[0]], [t[1]], ['read', t[0]]] + ([['readall']] if t[2] else []))
        return st.one_of(free, free.map(list), again)
    return free


class ThreadRun:
    def __init__(self, kind, d, pool_size=7, prehistory=0, warm=True, big_prehistory=False):
        import transaction
        import ZODB
        import ZODB.ConflictResolution as CR
        CR._unresolvable.clear()
        CR._class_cache.clear()
        sched.install()
        rawio.install()
        rawio.WRAP = sched.YieldingFile
        self.kind = kind
        self.db = ZODB.DB(make_storage(kind, d), pool_size=pool_size)
        tm = transaction.TransactionManager()
        c = self.db.open(tm)
        if 'x0' not in c.root():
            populate(c.root())
            tm.commit()
        self.oids = {n: c.root()[n]._p_oid for n in NAMES}
        from vlib import clock
        self.pre_tids = []
        for i in range(prehistory):
            # superseded revisions, so that a pack has something to free
            clock.CLOCK.advance(1.0)
            for nme in PLAIN:
                o = c.root()[nme]
                o.v = -1 - i
                o.derived_from = o._p_serial
                if big_prehistory and i == prehistory - 1:
                    o.pad = 'q' * 9500      # (the newest of these transactions is larger than a file buffer)
            tm.commit()
            self.pre_tids.append(c.root()[PLAIN[0]]._p_serial)
        clock.CLOCK.advance(1.0)
        tm.abort()
        # the threads' connections come from the pool: warm (the cache the set-up left behind: stale-cache
        # bugs need cached objects) or cold (ghosts: every first read is a real storage load)
        if not warm:
            c.cacheMinimize()
        c.close()
        self.events = []        # (tick, thread, kind, data)
        self.wid = 0
        self.sched = None
        self.issued = []        # (thread, oid) from new_oid calls
        # the tid of an undo transaction is taken where its storage instance receives it
        import ZODB.mvccadapter
        self.undo_tid = {}
        U = ZODB.mvccadapter.UndoAdapterInstance
        self._orig_undo_finish = orig = U.__dict__['tpc_finish']
        run = self

        def tpc_finish(inst, transaction, func=lambda tid: None):
            me0 = run.sched.me() if run.sched else None

            def f(tid):
                me = run.sched.me() if run.sched else None
                run.undo_tid[me.name if me else None] = tid
                func(tid)
            if me0 is not None:
                run.log(me0.name, 'finish-enter')
            r = orig(inst, transaction, f)
            if me0 is not None:
                run.log(me0.name, 'finish-exit', run.undo_tid.get(me0.name))
            return r
        U.tpc_finish = tpc_finish

    def close(self):
        rawio.WRAP = None
        import ZODB.mvccadapter
        ZODB.mvccadapter.UndoAdapterInstance.tpc_finish = self._orig_undo_finish
        try:
            self.db.close()
        except Exception:
            pass

    def log(self, th, kind, data=None):
        s = self.sched
        self.events.append((s.tick() if s else 0, th, kind, data))

    def probe(self, th, conn, nme, which):
        """read-only storage calls outside the connection (history, getTid, loadSerial, lastTransaction, undoLog): they
        must answer whatever another thread is doing; the current tid of an object is never older than a revision this
        thread has already loaded"""
        from ZODB.POSException import POSKeyError
        st_ = self.db.storage
        o = conn.root()[nme]
        oid = o._p_oid
        seen = o._p_serial if o._p_changed is not None else None
        if which == 0:
            tid = st_.getTid(oid)
            if seen is not None and tid < seen:
                self.log(th, 'probe-bad', 'getTid(%s) answered %r after revision %r had been loaded' % (nme, tid, seen))
        elif which == 1:
            h = st_.history(oid, 3)
            if not h or (seen is not None and h[0]['tid'] < seen):
                self.log(th, 'probe-bad', 'history(%s) starts at %r after revision %r had been loaded' % (
                    nme, h and h[0]['tid'], seen))
        elif which == 2:
            tid = seen or st_.getTid(oid)
            try:
                if not st_.loadSerial(oid, tid):
                    self.log(th, 'probe-bad', 'loadSerial(%s, %r) answered no data' % (nme, tid))
            except POSKeyError:
                pass        # (that revision has been packed away meanwhile)
        elif which == 3:
            lt = st_.lastTransaction()
            if seen is not None and lt < seen:
                self.log(th, 'probe-bad', 'lastTransaction() answered %r after revision %r had been loaded' % (lt, seen))
        elif self.db.supportsUndo():
            from ZODB.POSException import UndoError
            try:
                st_.undoLog(0, 3)
            except UndoError:
                pass        # (documented refusal while a pack is in progress)

    # ---- thread bodies
    def body(self, th, prog, role):
        import transaction
        from ZODB.POSException import ConflictError
        from vlib.vclasses import Node

        def run():
            tm = transaction.TransactionManager()
            self.log(th, 'boundary-start')
            conn = self.db.open(tm)
            # the tid of each commit is taken where the connection receives it from its storage
            # (reading _p_serial afterwards could already see a newer revision)
            inst = conn._storage
            orig_finish = inst.tpc_finish
            last_tid = [None]

            def tpc_finish(*a, **kw):
                self.log(th, 'finish-enter')
                last_tid[0] = orig_finish(*a, **kw)
                self.log(th, 'finish-exit', last_tid[0])
                return last_tid[0]
            inst.tpc_finish = tpc_finish
            self.log(th, 'boundary', getattr(conn._storage, '_start', None))
            wrote = {}
            try:
                for op in prog:
                    k = op[0]
                    try:
                        if k == 'read':
                            self.read(th, conn, op[1], wrote)
                        elif k == 'readall':
                            for nme in NAMES:
                                self.read(th, conn, nme, wrote)
                        elif k == 'write':
                            o = conn.root()[op[1]]
                            self.wid += 1
                            w = self.wid            # (shared counter: taken before any yield point)
                            o.v = w
                            o.derived_from = o._p_serial
                            if len(op) > 2 and op[2] == 'big':
                                o.pad = 'p' * (9000 + 7 * (w % 100))
                            elif 'pad' in o.__dict__:
                                del o.pad
                            wrote[op[1]] = w
                        elif k == 'inc':
                            o = conn.root()[op[1]]
                            o.n = o.n + op[2]
                            wrote[op[1]] = ('inc', op[2] + (wrote[op[1]][1] if op[1] in wrote else 0))
                        elif k == 'readcurrent':
                            o = conn.root()[op[1]]
                            o._p_activate()
                            conn.readCurrent(o)
                        elif k == 'minimize':
                            conn.cacheMinimize()
                        elif k == 'probe':
                            self.probe(th, conn, op[1], op[2])
                        elif k == 'begin':
                            self.log(th, 'boundary-start')
                            tm.begin()
                            wrote = {}
                            self.log(th, 'boundary', getattr(conn._storage, '_start', None))
                        elif k == 'abort':
                            self.log(th, 'boundary-start')
                            tm.abort()
                            wrote = {}
                            self.log(th, 'boundary', getattr(conn._storage, '_start', None))
                        elif k == 'commit':
                            self.log(th, 'commit-start', dict(wrote))
                            last_tid[0] = None
                            tm.commit()
                            self.log(th, 'commit-ok', (last_tid[0] if wrote else None, dict(wrote)))
                            from vlib import clock
                            clock.CLOCK.advance(0.01)
                            wrote = {}
                            self.log(th, 'boundary', getattr(conn._storage, '_start', None))
                        elif k == 'undo':
                            # undo one of the write transactions committed during this run
                            import base64
                            from ZODB.POSException import UndoError
                            cands = self.pre_tids[1:] + [d_[0] for _, _, kind, d_ in self.events
                                                         if kind == 'commit-ok' and d_[0] and d_[1]]
                            if cands and self.db.supportsUndo():
                                target = cands[op[1] % len(cands)]
                                self.log(th, 'commit-start', {})
                                self.undo_tid.pop(th, None)
                                try:
                                    self.db.undo(base64.encodebytes(target).rstrip(b'\n'), tm.get())
                                    tm.commit()
                                except UndoError as e:
                                    self.log(th, 'undo-refused', str(e)[:80])
                                    self.log(th, 'boundary-start')
                                    tm.abort()
                                else:
                                    self.log(th, 'undo-ok', (self.undo_tid.get(th), target))
                                    from vlib import clock
                                    clock.CLOCK.advance(0.01)
                                wrote = {}
                                self.log(th, 'boundary', getattr(conn._storage, '_start', None))
                        elif k == 'new_oid':
                            oid = self.db.storage.new_oid()
                            self.issued.append((th, oid))
                        elif k == 'add_commit':
                            o = Node()
                            conn.add(o)
                            self.issued.append((th, o._p_oid))
                            conn.root()['t%s_%d' % (th, len(self.issued))] = o
                            try:
                                tm.commit()
                            except ConflictError:
                                tm.abort()
                    except ConflictError as e:
                        self.log(th, 'conflict', type(e).__name__)
                        self.log(th, 'boundary-start')
                        tm.abort()
                        wrote = {}
                        self.log(th, 'boundary', getattr(conn._storage, '_start', None))
            finally:
                try:
                    tm.abort()
                    inst.__dict__.pop('tpc_finish', None)
                    conn.close()
                except Exception:
                    pass
        return run

    def read(self, th, conn, nme, wrote):
        o = conn.root()[nme]
        val = o.n if nme in COUNTERS else o.v
        if nme not in wrote:
            # with the snapshot bound the connection's storage instance holds at this moment
            self.log(th, 'read', (nme, o._p_serial, val, getattr(conn._storage, '_start', None)))

    def packer(self, th, back=0.0):
        from ZODB.FileStorage.FileStorage import FileStorageError

        def run():
            from vlib import clock
            try:
                self.log(th, 'pack-start', clock.CLOCK.now - back)
                self.db.pack(clock.CLOCK.now - back)
                self.log(th, 'pack-ok')
            except FileStorageError as e:
                self.log(th, 'pack-refused', str(e))
        return run

    def run(self, threads, schedule, line_funcs=()):
        """threads: [(name, callable)]"""
        self.before = self.history()        # (a pack running among the threads may remove these)
        s = sched.Scheduler(schedule)
        self.sched = s
        for name, fn in threads:
            s.spawn(name, fn)
        if line_funcs:
            sched.watch_lines(line_funcs)
        try:
            s.run(timeout=60)
        finally:
            if line_funcs:
                sched.unwatch_lines(line_funcs)
            self.sched = None
        s.run_events = self.events
        return s

    # ---- final history from the storage
    def history(self):
        from vlib.records import parse_record
        names = {v: k for k, v in self.oids.items()}
        revs = {n: [] for n in NAMES}
        it = self.db.storage.iterator()
        for t in it:
            for r in t:
                if r.oid in names and r.data:
                    cls, state = parse_record(r.data)
                    revs[names[r.oid]].append((t.tid, state))
        getattr(it, 'close', lambda: None)()
        before = getattr(self, 'before', None)
        if before:
            for nme in revs:
                have = {t for t, _ in revs[nme]}
                revs[nme] = sorted([x for x in before[nme] if x[0] not in have] + revs[nme], key=lambda x: x[0])
        # revisions written by commits that returned during the run and are not in the storage (any more):
        # placeholders (state unknown); whether a pack was entitled to drop them is judged by history_oracle
        wrote_by = {t: list(PLAIN) for t in getattr(self, 'pre_tids', [])}
        for tick, th, kind, data in self.events:
            if kind == 'commit-ok' and data[0]:
                wrote_by[data[0]] = list(data[1])
        for tick, th, kind, data in self.events:
            if kind == 'commit-ok' and data[0]:
                tid, wrote = data
            elif kind == 'undo-ok' and data[0]:
                # an undo writes a revision of every object its target wrote
                tid, wrote = data[0], {nme: None for nme in wrote_by.get(data[1], [])}
            else:
                continue
            for nme, w in wrote.items():
                if nme in revs and tid not in {t for t, _ in revs[nme]}:
                    revs[nme] = sorted(revs[nme] + [(tid, {'_placeholder': True, 'v': w})], key=lambda x: x[0])
        return revs

    def pack_tids(self):
        """pack times of the packs started in this run, as tids"""
        import time
        from persistent.TimeStamp import TimeStamp
        out = []
        for tick, th, kind, data in self.events:
            if kind == 'pack-start' and data is not None:
                out.append(TimeStamp(*time.gmtime(data)[:5] + (data % 60,)).raw())
        return out

    def droppable(self, revs, nme, tid):
        """may a pack of this run have removed revision tid of nme?  (superseded not later than a pack time)"""
        later = [t for t, _ in revs[nme] if t > tid]
        return bool(later) and any(min(later) <= p for p in self.pack_tids())


def snapshot_oracle(run, out, prop):
    """C02 (threads): every transaction read one consistent snapshot, not older than the last commit
    that had completed before its boundary"""
    revs = run.history()
    INF = b'\xff' * 8
    nxt = {}
    for nme, rs in revs.items():
        for i, (tid, state) in enumerate(rs):
            nxt[(nme, tid)] = (rs[i + 1][0] if i + 1 < len(rs) else INF, state)
    # commits completed (returned) by tick
    done = sorted((tick, data[0]) for tick, th, kind, data in run.events if kind in ('commit-ok', 'undo-ok') and data[0])
    segs = {}
    cur = {}
    for tick, th, kind, data in run.events:
        if kind == 'boundary-start' or (kind == 'commit-start'):
            pass
        if kind == 'boundary':
            cur[th] = {'start': tick, 'reads': []}
            segs.setdefault(th, []).append(cur[th])
        elif kind == 'read' and th in cur:
            cur[th]['reads'].append(data)
    # the boundary call STARTED at the previous 'boundary-start'/'commit-start' event of that thread
    starts = {}
    last_start = {}
    for tick, th, kind, data in run.events:
        if kind in ('boundary-start', 'commit-start'):
            last_start[th] = tick
        elif kind == 'boundary':
            starts[(th, tick)] = last_start.get(th, tick)
    # no transaction becomes visible below a snapshot bound that a connection already holds: the storage-level finish
    # of the commit was entered after the bound had been observed, yet its id is smaller than the bound
    bounds = [(tick, th, data) for tick, th, kind, data in run.events if kind == 'boundary' and data]
    bounds += [(tick, th, data[3]) for tick, th, kind, data in run.events if kind == 'read' and data[3]]
    enter = {}
    for tick, th, kind, data in run.events:
        if kind == 'finish-enter':
            enter[th] = tick
        elif kind == 'finish-exit' and data and th in enter:
            for tb, thb, bound in bounds:
                if tb < enter[th] and data < bound:
                    out.fail((prop, 'threads-snapshot', 'commit-visible-below-established-bound'),
                             'thread %s finished a commit with id %r after thread %s held the snapshot bound %r (everything '
                             'below a bound is what that snapshot shows: the commit appeared in it retroactively)' % (
                                 th, data, thb, bound))
                    return 0
    n = 0
    for th, ss in segs.items():
        for seg in ss:
            if not seg['reads']:
                continue
            n += 1
            lo, hi = b'\0' * 8, INF
            for nme, serial, val, bound in seg['reads']:
                key = (nme, serial)
                if key not in nxt:
                    out.fail((prop, 'threads-snapshot', 'read-of-unknown-revision'),
                             'thread %s read %s with serial %r which no committed transaction wrote' % (th, nme, serial))
                    return n
                state = nxt[key][1]
                stored = state.get('n') if nme in COUNTERS else state.get('v')
                if state.get('_placeholder') and (nme in COUNTERS or stored is None):
                    stored = val        # (revision packed away since, or written by an undo: its state is not known)
                if stored != val:
                    out.fail((prop, 'threads-snapshot', 'value-differs-from-revision'),
                             'thread %s read %s=%r under serial %r, that revision holds %r' % (th, nme, val, serial, stored))
                    return n
                lo = max(lo, serial)
                hi = min(hi, nxt[key][0])
                if bound is not None and not (serial < bound <= nxt[key][0]):
                    out.fail((prop, 'threads-snapshot', 'read-not-current-at-bound'),
                             'thread %s read %s in revision %r (superseded at %r) while its snapshot bound was %r' % (
                                 th, nme, serial, nxt[key][0], bound))
                    return n
            if not lo < hi:
                out.fail((prop, 'threads-snapshot', 'inconsistent-reads'),
                         'thread %s read revisions that never were current together: %r' % (th, seg['reads']))
                return n
            bstart = starts.get((th, seg['start']), seg['start'])
            t_done = max([tid for tick, tid in done if tick < bstart] or [b'\0' * 8])
            if not t_done < hi:
                out.fail((prop, 'threads-snapshot', 'snapshot-older-than-completed-commit'),
                         'thread %s: a commit with tid %r had returned before the boundary began, but the transaction read '
                         '%r (superseded at %r)' % (th, t_done, seg['reads'], hi))
                return n
    return n


def final_reads_oracle(run, out, prop):
    """after all threads have ended: what the storage's load() answers (through its pooled read handles, index
    and caches, as left behind by the threads) is the newest record its own iterator lists, for every object"""
    st_ = run.db.storage
    latest = {}
    it = st_.iterator()
    for t in it:
        for r in t:
            latest[r.oid] = (r.data, t.tid)
    getattr(it, 'close', lambda: None)()
    for rnd in range(3):
        for oid, (data, tid) in sorted(latest.items()):
            if data is None:
                continue
            try:
                got = st_.load(oid)
            except Exception as e:          # noqa: B902  reported
                got = 'raises %s(%s)' % (type(e).__name__, str(e)[:80])
            if got != (data, tid):
                out.fail((prop, 'threads-final-reads', 'load-differs-from-iterator'),
                         'after the threads ended load(%s) answers %s ; the newest record listed by the iterator is tid %r (%d bytes)' % (
                             oid.hex(), got if isinstance(got, str) else (got[1], len(got[0])), tid, len(data)))
                return


def history_oracle(run, out, prop):
    """C03 (threads): every revision was derived from its immediate predecessor; every commit that
    returned is in the storage"""
    revs = run.history()
    undo_tids = {d_[0] for _, _, kind, d_ in run.events if kind == 'undo-ok'}
    if None in undo_tids:
        from vlib.driver import HarnessError
        raise HarnessError('tid of an undo transaction not captured')
    for nme in PLAIN:
        rs = revs[nme]
        for i in range(1, len(rs)):
            if rs[i][1].get('_placeholder') or rs[i][0] in undo_tids:
                continue        # (an undo re-establishes an earlier state as it was)
            if rs[i][1].get('derived_from') != rs[i - 1][0]:
                out.fail((prop, 'threads-history', 'revision-derived-from-older'),
                         'revision %r of %s was computed from %r, the preceding revision is %r' % (
                             rs[i][0], nme, rs[i][1].get('derived_from'), rs[i - 1][0]))
                return
    present = {}
    for nme, rs in revs.items():
        for tid, state in rs:
            present[(nme, tid)] = state
    for tick, th, kind, data in run.events:
        if kind == 'commit-ok' and data[0]:
            tid, wrote = data
            for nme, w in wrote.items():
                if present[(nme, tid)].get('_placeholder'):
                    if run.droppable(revs, nme, tid):
                        continue
                    out.fail((prop, 'threads-history', 'returned-commit-missing'),
                             'thread %s: commit of %s returned tid %r but the storage has no such revision' % (th, nme, tid))
                    return
                if nme in PLAIN and present[(nme, tid)].get('v') != w:
                    out.fail((prop, 'threads-history', 'stored-value-differs'),
                             'thread %s wrote %s=%r in %r, stored %r' % (th, nme, w, tid, present[(nme, tid)].get('v')))
                    return
    # counters: the final value equals the sum of all successful increments
    for nme in COUNTERS:
        total = sum(w[1] for tick, th, kind, data in run.events if kind == 'commit-ok' and data[0]
                    for n2, w in data[1].items() if n2 == nme)
        # every successful undo takes the increments of its target away again (also through resolution)
        incs = {data[0]: data[1] for tick, th, kind, data in run.events if kind == 'commit-ok' and data[0]}
        total -= sum(incs[data[1]][nme][1] for tick, th, kind, data in run.events
                     if kind == 'undo-ok' and nme in incs.get(data[1], {}))
        rs = revs[nme]
        final = rs[-1][1].get('n') if rs else 0
        if final != total:
            out.fail((prop, 'threads-history', 'counter-lost-increment'),
                     '%s ends at %r, the successful commits incremented it by %r in total' % (nme, final, total))
            return


def tolerate_pack_failed_by_undo(s, run, out):
    """a pack that cannot complete may fail (C08's statement); the one known cause under concurrency: an undo committed
    while the pack runs points back to a revision the pack has already decided to drop"""
    from ZODB.FileStorage.fspack import PackError
    import traceback
    ev = [k for _, _, k, _ in run.events]
    for t in s.threads:
        if not (t.name.startswith('packer') and t.exc is not None and 'undo-ok' in ev):
            continue
        # (the same cause shows as the transaction-length assertion of copyOne when the copier writes the
        # data inline instead of the back-pointer)
        inner = traceback.extract_tb(t.exc.__traceback__)[-1]
        if isinstance(t.exc, PackError) or (isinstance(t.exc, AssertionError) and inner.name == 'copyOne'):
            out.label('threads-pack-failed-because-of-concurrent-undo')
            t.exc = None


def thread_problems(s, out, prop, allowed=()):
    bad = [d_ for _, _, k_, d_ in getattr(s, 'run_events', ()) if k_ == 'probe-bad']
    if bad:
        out.fail((prop, 'threads', 'storage-probe', 'stale-or-empty-answer'), bad[0])
        return True
    if s.problem and s.problem[0] == 'deadlock':
        out.fail((prop, 'threads', 'deadlock'), s.problem[1])
        return True
    if s.problem:
        out.label('inconclusive-' + s.problem[0])
        return True
    for t in s.threads:
        if t.exc is not None and not isinstance(t.exc, allowed):
            import traceback
            out.fail((prop, 'threads', 'exception-in-thread', type(t.exc).__name__),
                     'thread %s raised %r\n%s' % (t.name, t.exc, ''.join(traceback.format_tb(t.exc.__traceback__)[-5:])))
            return True
    return False
