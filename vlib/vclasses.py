"""Persistent classes used by generated programs (importable: pickles refer to them)."""
import persistent
from persistent.mapping import PersistentMapping  # noqa


class Node(persistent.Persistent):
    """plain persistent object with dict state; no conflict resolution"""


class NodeNA(persistent.Persistent):
    """has __getnewargs__ whose arguments __new__ requires: references to it are stored as bare
    oids, and a ghost can only be made after its record was read"""

    def __new__(cls, tag):
        inst = persistent.Persistent.__new__(cls)
        return inst

    def __init__(self, tag='na'):
        self.tag = tag

    def __getnewargs__(self):
        return (self.__dict__.get('tag', 'na'),)


RESOLVE_LOG = []
CMP_LOG = []


class Counter(persistent.Persistent):
    """resolvable: recording pure three-way merge on the integer field 'n';
    all other keys are taken from the 'new' state."""

    def _p_resolveConflict(self, old, committed, new):
        RESOLVE_LOG.append((old, committed, new))
        r = dict(new)
        r['n'] = committed.get('n', 0) + new.get('n', 0) - old.get('n', 0)
        r['merged'] = r.get('merged', 0) + 1
        return r


class Stubborn(persistent.Persistent):
    def _p_resolveConflict(self, old, committed, new):
        from ZODB.POSException import ConflictError
        RESOLVE_LOG.append(('stubborn',))
        raise ConflictError('no')


class Exploding(persistent.Persistent):
    def _p_resolveConflict(self, old, committed, new):
        RESOLVE_LOG.append(('exploding',))
        raise RuntimeError('boom')


class RCounter(persistent.Persistent):
    """resolvable; the recording merge takes 'n' three-way, keys starting with 'c_' from the committed
    state and everything else from the new state - so references of both sides end up in the result"""

    def _p_resolveConflict(self, old, committed, new):
        RESOLVE_LOG.append((old, committed, new))
        # what a resolver may ask about the references it is handed (IPersistentReference): compare them
        import operator
        from ZODB.ConflictResolution import PersistentReference as PR
        for x, y in ((old, committed), (old, new), (committed, new)):
            for k in sorted(set(x) & set(y)):
                a, b = x[k], y[k]
                if isinstance(a, PR) and isinstance(b, PR):
                    for opname in ('eq', 'ne', 'le', 'gt'):
                        try:
                            r = getattr(operator, opname)(a, b)
                        except ValueError:
                            r = 'ValueError'
                        CMP_LOG.append((k, opname, r, a is b, (a.oid, a.database_name, a.weak), (b.oid, b.database_name, b.weak)))
        if new.get('x_raise'):
            # this one resolution fails, with an exception type chosen by the generator
            import builtins
            raise getattr(builtins, new['x_raise'])('the resolver fails for this state')
        r = dict(new)
        r['n'] = committed.get('n', 0) + new.get('n', 0) - old.get('n', 0)
        for k, v in committed.items():
            if k.startswith('c_'):
                r[k] = v
        return r


class RCounterNA(RCounter):
    """the same resolver on a class whose instances cannot be made without their constructor arguments"""

    def __new__(cls, tag):
        o = persistent.Persistent.__new__(cls)
        return o

    def __init__(self, tag):
        self.c_tag = tag

    def __getnewargs__(self):
        return (self.c_tag,)


class NoResolver(persistent.Persistent):
    pass
