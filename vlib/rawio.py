"""Raw file layer (DESIGN 2.4): records the low-level operations ZODB issues, builds crash
images from any prefix of them, and injects faults.  No source hook: the names `open`,
`fsync` and `os` are rebound in the module globals of the ZODB modules that do file I/O.

With no recorder/fault plan active the replaced names behave exactly like the originals.
"""
import builtins
import errno as _errno
import io
import os as _os
import sys

_MODS = ['ZODB.FileStorage.FileStorage', 'ZODB.FileStorage.fspack', 'ZODB.fsIndex', 'ZODB.blob',
         'ZODB.utils', 'ZODB.fsrecover']

ACTIVE = None       # the active Recorder, or None


class Recorder:
    def __init__(self, watch=None, faults=()):
        self.log = []           # entries, see module doc of checks
        self.watch = watch      # predicate on path (None = every path)
        self.faults = list(faults)
        self.fd_path = {}
        self.enabled = True
        self.raw_ops = 0
        self.reads = 0
        self.read_budget = None

    def wants(self, path):
        return self.enabled and (self.watch is None or self.watch(path))

    def mark(self, label):
        self.log.append(('mark', label))

    def add(self, *entry):
        self.log.append(entry)

    def check_fault(self, kind, path, nbytes=0):
        """-> None, or number of bytes to write before failing (short write); raises OSError"""
        self.raw_ops += 1
        for f in self.faults:
            r = f.hit(kind, path)
            if r is not None:
                return r
        return None


class FaultPlan:
    """fail the nth (0-based) matching raw operation and the next `sticky` ones"""

    def __init__(self, suffix, kind, nth, err=_errno.ENOSPC, sticky=0, partial=None):
        self.suffix, self.kind, self.nth, self.err = suffix, kind, nth, err
        self.sticky = sticky
        self.partial = partial      # None: nothing written; int: that many bytes written first
        self.count = 0
        self.fired = 0
        self.short = None
        self.hits = []          # (kind, path) of the operations that were made to fail

    def hit(self, kind, path):
        if (self.kind is not None and kind != self.kind) or not path.endswith(self.suffix):
            return None
        i = self.count
        self.count += 1
        self.short = None
        if self.partial and kind == 'write':
            # realistic OS behaviour: the nth write is short (returns a count), the
            # following one(s) fail
            if i == self.nth:
                self.fired += 1
                self.short = self.partial
                return self
            if self.nth < i <= self.nth + 1 + self.sticky:
                self.fired += 1
                return self
            return None
        if self.nth <= i <= self.nth + self.sticky:
            self.fired += 1
            self.hits.append((kind, path))
            return self
        return None


class ReadBudgetExceeded(BaseException):
    """deterministic termination bound: more raw reads than the budget allows"""


class RecordingRaw(io.FileIO):
    def __init__(self, path, mode, rec):
        super().__init__(path, mode)
        self._vpath = _os.path.abspath(path)
        self._rec = rec
        self._append = 'a' in mode
        rec.fd_path[self.fileno()] = self._vpath

    def write(self, b):
        rec = self._rec
        if rec is not ACTIVE or not rec.wants(self._vpath):
            return super().write(b)
        data = bytes(b)
        if self._append:
            off = _os.fstat(self.fileno()).st_size
        else:
            off = self.tell()
        f = rec.check_fault('write', self._vpath, len(data))
        if f is not None:
            if f.short and f.short < len(data):
                part = data[:f.short]
                rec.add('write', self._vpath, off, part)
                return super().write(part)
            if not f.short:
                raise OSError(f.err, _os.strerror(f.err))
        rec.add('write', self._vpath, off, data)
        n = super().write(data)
        assert n == len(data), 'short write from the OS'
        return n

    def readinto(self, b):
        rec = self._rec
        if rec is ACTIVE and rec.read_budget is not None:
            rec.reads += 1
            if rec.reads > rec.read_budget:
                raise ReadBudgetExceeded(rec.reads)
        return super().readinto(b)

    def truncate(self, size=None):
        rec = self._rec
        if rec is ACTIVE and rec.wants(self._vpath):
            if size is None:
                size = self.tell()
            f = rec.check_fault('truncate', self._vpath)
            if f is not None:
                raise OSError(f.err, _os.strerror(f.err))
            rec.add('truncate', self._vpath, size)
        return super().truncate(size)

    def close(self):
        try:
            self._rec.fd_path.pop(self.fileno(), None)
        except (ValueError, OSError):
            pass
        return super().close()


WRAP = None         # optional callable applied to binary file objects (scheduler yield-point proxy)


def vopen(file, mode='r', buffering=-1, *args, **kw):
    f = _vopen(file, mode, buffering, *args, **kw)
    if WRAP is not None and 'b' in mode:
        return WRAP(f)
    return f


def _vopen(file, mode='r', buffering=-1, *args, **kw):
    rec = ACTIVE
    if rec is None or 'b' not in mode or not isinstance(file, (str, bytes)) or not rec.enabled:
        return builtins.open(file, mode, buffering, *args, **kw)
    path = _os.path.abspath(file)
    if not rec.wants(path):
        return builtins.open(file, mode, buffering, *args, **kw)
    rawmode = mode.replace('b', '')
    creating = 'w' in rawmode or ('a' in rawmode and not _os.path.exists(path)) or 'x' in rawmode
    if creating:
        f = rec.check_fault('create', path)
        if f is not None:
            raise OSError(f.err, _os.strerror(f.err))
        rec.add('create', path, 'w' in rawmode)
    raw = RecordingRaw(file, rawmode, rec)
    if buffering == 0:
        return raw
    bs = buffering if buffering > 1 else io.DEFAULT_BUFFER_SIZE
    if '+' in rawmode:
        return io.BufferedRandom(raw, bs)
    if 'r' in rawmode:
        return io.BufferedReader(raw, bs)
    return io.BufferedWriter(raw, bs)


def vfsync(fd):
    rec = ACTIVE
    if rec is not None and rec.enabled:
        path = rec.fd_path.get(fd)
        if path is not None and rec.wants(path):
            f = rec.check_fault('fsync', path)
            if f is not None:
                raise OSError(f.err, _os.strerror(f.err))
            rec.add('fsync', path)
    return _os.fsync(fd)


class OsProxy:
    """`os` as seen from the ZODB modules: rename/remove/unlink are recorded."""

    def __getattr__(self, name):
        return getattr(_os, name)

    def rename(self, a, b):
        rec = ACTIVE
        if rec is not None and rec.enabled:
            pa, pb = _os.path.abspath(a), _os.path.abspath(b)
            if rec.wants(pa) or rec.wants(pb):
                f = rec.check_fault('rename', pa)
                if f is not None:
                    raise OSError(f.err, _os.strerror(f.err))
                rec.add('rename', pa, pb)
        return _os.rename(a, b)

    def replace(self, a, b):
        rec = ACTIVE
        if rec is not None and rec.enabled:
            pa, pb = _os.path.abspath(a), _os.path.abspath(b)
            if rec.wants(pa) or rec.wants(pb):
                f = rec.check_fault('rename', pa)
                if f is not None:
                    raise OSError(f.err, _os.strerror(f.err))
                rec.add('rename', pa, pb)
        return _os.replace(a, b)

    def link(self, a, b):
        rec = ACTIVE
        if rec is not None and rec.enabled:
            pa, pb = _os.path.abspath(a), _os.path.abspath(b)
            if rec.wants(pa) or rec.wants(pb):
                f = rec.check_fault('link', pa)
                if f is not None:
                    raise OSError(f.err, _os.strerror(f.err))
                rec.add('link', pa, pb)
        return _os.link(a, b)

    def remove(self, a):
        rec = ACTIVE
        if rec is not None and rec.enabled:
            pa = _os.path.abspath(a)
            if rec.wants(pa):
                f = rec.check_fault('remove', pa)
                if f is not None:
                    raise OSError(f.err, _os.strerror(f.err))
                rec.add('remove', pa)
        return _os.remove(a)

    unlink = remove


OS = OsProxy()
_installed = False


def install():
    global _installed
    if _installed:
        return
    import importlib
    for m in _MODS:
        importlib.import_module(m)
        mod = sys.modules[m]
        mod.open = vopen
        if getattr(mod, 'os', None) is _os:
            mod.os = OS
    fsmod = sys.modules['ZODB.FileStorage.FileStorage']
    assert fsmod.fsync is _os.fsync, 'FileStorage.fsync is not os.fsync'
    fsmod.fsync = vfsync
    _installed = True


def start(watch=None, faults=()):
    global ACTIVE
    install()
    ACTIVE = Recorder(watch, faults)
    return ACTIVE


def stop():
    global ACTIVE
    r = ACTIVE
    ACTIVE = None
    return r


# --------------------------------------------------------------------------------------
# crash images

def apply_op(files, e, cut=None):
    """apply log entry e to files (dict path -> bytearray); cut = byte prefix for writes"""
    k = e[0]
    if k == 'write':
        _, path, off, data = e
        if cut is not None:
            data = data[:cut]
        buf = files.setdefault(path, bytearray())
        if len(buf) < off:
            buf.extend(b'\0' * (off - len(buf)))
        buf[off:off + len(data)] = data
    elif k == 'truncate':
        _, path, size = e
        buf = files.setdefault(path, bytearray())
        if len(buf) > size:
            del buf[size:]
        else:
            buf.extend(b'\0' * (size - len(buf)))
    elif k == 'create':
        _, path, trunc = e
        if trunc or path not in files:
            files[path] = bytearray()
    elif k == 'rename':
        _, a, b = e
        if a in files:
            files[b] = files.pop(a)
    elif k == 'link':
        _, a, b = e
        if a in files:
            files[b] = bytearray(files[a])
    elif k == 'remove':
        files.pop(e[1], None)


def images(log, initial=None):
    """generator of (index k, files-dict after first k entries); files is mutated in place,
    callers must copy what they keep"""
    files = {p: bytearray(b) for p, b in (initial or {}).items()}
    yield 0, files
    for i, e in enumerate(log):
        apply_op(files, e)
        yield i + 1, files
