"""Multi-connection programs executed in one thread with generator-chosen interleaving (C02, C03),
and the exact MVCC / commit-outcome model they are compared with."""
import os

from hypothesis import strategies as st

PLAIN = ['x0', 'x1', 'x2']
COUNTERS = ['k0', 'k1']
NAMES = PLAIN + COUNTERS
ROOT = 'R'      # (sequential programs only) the database root object itself, oid 0, as one more plain object


def op_strategy(nconn, weights='mixed'):
    c = st.integers(0, nconn - 1)

    def mk(kind):
        # (fresh strategy objects: one_of() collapses identical ones, which would undo the weighting)
        name = st.sampled_from(NAMES + [ROOT])
        if kind in ('read', 'readcurrent', 'discard'):
            return st.tuples(st.just(kind), c, name)
        if kind == 'write':
            return st.tuples(st.just('write'), c, st.sampled_from(PLAIN + [ROOT]))
        if kind == 'inc':
            return st.tuples(st.just('inc'), c, st.sampled_from(COUNTERS), st.integers(1, 5))
        return st.tuples(st.just(kind), c)
    mix = ['stall', 'read', 'read', 'readall', 'write', 'write', 'inc', 'commit', 'commit', 'abort', 'begin', 'minimize',
           'close_open', 'readcurrent', 'restart', 'discard']
    if weights == 'write-heavy':
        mix += ['write', 'write', 'inc', 'commit', 'commit', 'readcurrent', 'savepoint', 'savepoint']
    else:
        mix += ['read', 'read', 'readall', 'minimize', 'close_open', 'begin', 'savepoint']
    return st.one_of(*[mk(k) for k in mix]).map(list)


def make_storage(kind, d):
    from ZODB.DemoStorage import DemoStorage
    from ZODB.FileStorage import FileStorage
    from ZODB.MappingStorage import MappingStorage
    if kind == 'fs':
        return FileStorage(os.path.join(d, 'Data.fs'))
    if kind == 'mapping':
        return MappingStorage()
    if kind == 'demo':
        return DemoStorage()
    if kind == 'demo-fs':
        # the shared objects live in the (read-only) base; changes go to a file storage
        import transaction
        import ZODB
        db = ZODB.DB(FileStorage(os.path.join(d, 'Base.fs')))
        tm = transaction.TransactionManager()
        c = db.open(tm)
        populate(c.root())
        tm.commit()
        c.close()
        db.close()
        base = FileStorage(os.path.join(d, 'Base.fs'), read_only=True)
        return DemoStorage(base=base, changes=FileStorage(os.path.join(d, 'Changes.fs')))
    raise ValueError(kind)


def populate(root):
    from vlib.vclasses import Counter, Node
    st0 = {}
    for nme in PLAIN:
        o = Node()
        o.v = 0
        o.derived_from = None
        root[nme] = o
        st0[nme] = {'v': 0}
    for nme in COUNTERS:
        o = Counter()
        o.n = 0
        root[nme] = o
        st0[nme] = {'n': 0}
    root['R_v'] = 0
    root['R_from'] = None
    st0[ROOT] = {'v': 0}
    return st0


class MWorld:
    def __init__(self, kind, d, out, prop, nconn, pool_size):
        import transaction
        import ZODB
        import ZODB.ConflictResolution as CR
        from vlib import vclasses
        from vlib.vclasses import Counter, Node
        CR._unresolvable.clear()
        CR._class_cache.clear()
        del vclasses.RESOLVE_LOG[:]
        self.out, self.prop, self.kind = out, prop, kind
        self.dir, self.pool_size = d, pool_size
        self.db = ZODB.DB(make_storage(kind, d), pool_size=pool_size)
        self.n = nconn
        self.tms = [transaction.TransactionManager() for _ in range(nconn)]
        self.conns = [None] * nconn
        # model
        self.history = []            # [(tid, {name: state})]; state: {'v':..} or {'n':..}
        self.snap = [0] * nconn      # number of transactions visible to connection c
        self.writes = [dict() for _ in range(nconn)]
        self.base = [dict() for _ in range(nconn)]      # name -> serial the write was computed from
        self.readcur = [dict() for _ in range(nconn)]   # name -> serial at declaration
        self.saved = [dict() for _ in range(nconn)]     # name -> value held by the transaction's latest savepoint
        self.wid = 0
        self.labels = set()
        self.stale_reads = 0
        # setup
        tm = transaction.TransactionManager()
        c = self.db.open(tm)
        root = c.root()
        if 'x0' in root:
            st0 = {nme: ({'n': 0} if nme in COUNTERS else {'v': 0}) for nme in NAMES + [ROOT]}    # populated in the base
        else:
            st0 = populate(root)
            tm.commit()
        self.history.append((self.db.storage.lastTransaction(), st0))
        tm.abort()
        c.close()
        self.stalled = False
        for i in range(nconn):
            self.open(i)

    def close(self):
        for tm in self.tms:
            try:
                tm.abort()
            except Exception:
                pass
        try:
            self.db.close()
        except Exception:
            pass

    def fail(self, oracle, kind, msg):
        self.out.fail((self.prop, oracle, kind), msg)

    # ---- model helpers
    def value_at(self, name, nvis):
        v = None
        for tid, w in self.history[:nvis]:
            if name in w:
                v = (tid, w[name])
        return v

    def view(self, c, name):
        if name in self.writes[c]:
            return self.writes[c][name]
        return self.value_at(name, self.snap[c])[1]

    def boundary(self, c):
        self.snap[c] = len(self.history)
        self.writes[c], self.base[c], self.readcur[c] = {}, {}, {}
        self.saved[c] = {}

    def open(self, c):
        self.conns[c] = self.db.open(self.tms[c])
        self.boundary(c)

    # ---- operations
    def step(self, op):
        from ZODB.POSException import ConflictError, ReadConflictError
        k, c = op[0], op[1]
        conn = self.conns[c]
        if k == 'read':
            self.read(c, op[2])
        elif k == 'readall':
            for nme in NAMES:
                if not self.read(c, nme):
                    break
        elif k == 'write':
            nme = op[2]
            self.wid += 1
            if nme == ROOT:
                o = conn.root()
                o['R_from'] = o._p_serial
                o['R_v'] = self.wid
            else:
                o = conn.root()[nme]
                o.v = self.wid
                o.derived_from = o._p_serial
            if nme not in self.writes[c]:
                self.base[c][nme] = self.value_at(nme, self.snap[c])[0]
            self.writes[c][nme] = {'v': self.wid}
        elif k == 'inc':
            nme = op[2]
            o = conn.root()[nme]
            o.n = o.n + op[3]
            if nme not in self.writes[c]:
                self.base[c][nme] = self.value_at(nme, self.snap[c])[0]
            self.writes[c][nme] = {'n': self.view(c, nme)['n'] + op[3]}
        elif k == 'discard':
            # the uncommitted change of one object is thrown away (object invalidated by the program): it is not
            # written by this transaction any more; what was declared with readCurrent stays declared
            nme = op[2]
            if nme in self.writes[c] and nme != ROOT:
                conn.root()[nme]._p_invalidate()
                if nme in self.saved[c]:
                    # (what a savepoint has taken is part of the transaction: the object is read back from there)
                    self.writes[c][nme] = dict(self.saved[c][nme])
                else:
                    del self.writes[c][nme]
                    self.base[c].pop(nme, None)
                self.labels.add('change-discarded')
        elif k == 'readcurrent':
            nme = op[2]
            o = conn.root() if nme == ROOT else conn.root()[nme]
            o._p_activate()
            conn.readCurrent(o)
            if nme not in self.readcur[c]:
                self.readcur[c][nme] = self.value_at(nme, self.snap[c])[0]
            self.labels.add('readCurrent')
        elif k == 'begin':
            self.tms[c].begin()
            self.boundary(c)
        elif k == 'abort':
            self.tms[c].abort()
            self.boundary(c)
        elif k == 'minimize':
            conn.cacheMinimize()
        elif k == 'restart':
            # (file storages) the whole database is closed and opened again - from its saved index -; every
            # connection starts over at a fresh boundary
            if self.kind == 'fs':
                import ZODB
                for i in range(self.n):
                    self.tms[i].abort()
                    self.conns[i].close()
                self.db.close()
                self.db = ZODB.DB(make_storage(self.kind, self.dir), pool_size=self.pool_size)
                for i in range(self.n):
                    self.open(i)
                self.labels.add('database-restarted')
        elif k == 'close_open':
            self.tms[c].abort()
            conn.close()
            self.open(c)
            self.labels.add('close-open')
        elif k == 'commit':
            self.commit(c)
        elif k == 'savepoint':
            # a savepoint changes nothing observable; the commit then takes the savepoint path
            self.tms[c].savepoint()
            self.saved[c] = {n_: dict(v) for n_, v in self.writes[c].items()}
            self.labels.add('savepoint')
        elif k == 'stall':
            # the clock stops: following transaction ids differ by one tick only
            self.stalled = not self.stalled
            self.labels.add('clock-stall')

    def read(self, c, nme):
        exp = self.view(c, nme)
        if nme == ROOT:
            got = {'v': self.conns[c].root()['R_v']}
        else:
            o = self.conns[c].root()[nme]
            got = {'n': o.n} if nme in COUNTERS else {'v': o.v}
        cur = self.value_at(nme, len(self.history))[1]
        if nme not in self.writes[c] and cur != exp:
            self.stale_reads += 1
            self.labels.add('read-of-superseded-revision')
        if got != exp:
            self.fail('snapshot-read', 'mismatch',
                      'connection %d reads %s as %r ; its snapshot (%d of %d transactions) + own writes say %r (latest committed %r)' % (
                          c, nme, got, self.snap[c], len(self.history), exp, cur))
            return False
        return True

    def commit(self, c):
        from ZODB.POSException import ConflictError, ReadConflictError
        from vlib import vclasses
        w = self.writes[c]
        latest = len(self.history)
        # predicted outcome
        conflict = None
        resolved = {}
        for nme in sorted(set(w) | set(self.readcur[c])):
            cur_tid, cur_val = self.value_at(nme, latest)
            if nme in w:
                if cur_tid != self.base[c][nme]:
                    if nme in COUNTERS and self.kind != 'mapping':     # MappingStorage offers no conflict resolution
                        old = self.value_at(nme, self.snap[c])[1]
                        resolved[nme] = {'n': cur_val['n'] + w[nme]['n'] - old['n']}
                    else:
                        conflict = conflict or nme
            elif cur_tid != self.readcur[c][nme]:
                conflict = conflict or nme
        overlapping = any(self.value_at(nme, latest)[0] != self.value_at(nme, self.snap[c])[0]
                          for nme in set(w) | set(self.readcur[c]))
        last_before = self.db.storage.lastTransaction()
        del vclasses.RESOLVE_LOG[:]
        try:
            self.tms[c].commit()
            ok = True
        except ConflictError as e:
            ok = False
            self.tms[c].abort()
        if ok:
            if conflict and w:
                self.fail('commit-outcome', 'lost-update',
                          'connection %d committed although %s changed after its snapshot (base %r, current %r)' % (
                              c, conflict, self.base[c].get(conflict) or self.readcur[c].get(conflict),
                              self.value_at(conflict, latest)[0]))
                return
            if conflict and not w:
                # nothing written: readCurrent of a changed object need not be checked by a read-only commit
                pass
            if w:
                tid = self.db.storage.lastTransaction()
                if tid == last_before:
                    self.fail('commit-outcome', 'nothing-stored', 'commit of %r returned but no transaction was stored' % sorted(w))
                    return
                vals = dict(w)
                for nme, r in resolved.items():
                    vals[nme] = r
                    self.labels.add('resolved')
                self.history.append((tid, vals))
                if overlapping:
                    self.labels.add('overlapping-commit-ok')
        else:
            if not conflict and not resolved:
                self.fail('commit-outcome', 'false-conflict',
                          'connection %d: commit of %r (readCurrent %r) raised a conflict although nothing it depends on '
                          'changed since its snapshot' % (c, sorted(w), sorted(self.readcur[c])))
                return
            if not conflict and resolved:
                self.fail('commit-outcome', 'resolvable-conflict-raised',
                          'connection %d: only resolvable objects %r were stale, the commit must merge' % (c, sorted(resolved)))
                return
            if self.db.storage.lastTransaction() != last_before:
                self.fail('commit-outcome', 'conflict-but-stored', 'a conflicting commit stored a transaction')
                return
            self.labels.add('conflict')
        self.boundary(c)
        # the committing connection itself reads the merged / committed state next
        if ok and resolved:
            for nme in resolved:
                self.read(c, nme)

    def check_history(self):
        """every committed revision was derived from the revision immediately preceding it, and the
        final values equal a serial replay of the successful transactions"""
        import pickle
        from vlib.records import parse_record
        st_ = self.db.storage
        revs = {}
        oid_name = {}
        tm = self.tms[0]
        tm.begin()
        root = self.conns[0].root()
        for nme in NAMES:
            oid_name[root[nme]._p_oid] = nme
        it = st_.iterator()
        for t in it:
            for r in t:
                if r.oid in oid_name and r.data:
                    lst = revs.setdefault(oid_name[r.oid], [])
                    if lst and lst[-1][0] == t.tid:
                        # an object changed, invalidated by the program and changed again is registered - and
                        # stored - twice in one transaction (DESIGN 10.2 obs. 10): the last record counts
                        lst.pop()
                    lst.append((t.tid, r.data))
        getattr(it, 'close', lambda: None)()
        for nme in PLAIN:
            rs = revs.get(nme, [])
            for i in range(1, len(rs)):
                cls, state = parse_record(rs[i][1])
                if state.get('derived_from') != rs[i - 1][0]:
                    self.fail('history', 'revision-derived-from-older',
                              'revision %r of %s was computed from %r, the preceding revision is %r' % (
                                  rs[i][0], nme, state.get('derived_from'), rs[i - 1][0]))
                    return
        # model history vs storage
        for nme in NAMES:
            exp = [(tid, w[nme]) for tid, w in self.history if nme in w]
            got = []
            for tid, data in revs.get(nme, []):
                cls, state = parse_record(data)
                got.append((tid, {k: state[k] for k in ('v', 'n') if k in state}))
            if [g[0] for g in got] != [e[0] for e in exp]:
                self.fail('history', 'revisions-differ', '%s: storage has revisions %r ; the outcome model %r' % (
                    nme, [g[0] for g in got], [e[0] for e in exp]))
                return
            for g, e in zip(got, exp):
                if g[1] != e[1]:
                    self.fail('history', 'stored-value-differs', '%s at %r: stored %r ; model %r' % (nme, g[0], g[1], e[1]))
                    return
