"""Deterministic cooperative scheduler (DESIGN 2.5): the harness owns the thread schedule.

Virtual threads are real threading.Threads, but exactly one holds the run token.  At every
yield point (lock / condition operation, file operation, optional source lines) the running
thread asks the scheduler, which picks the next thread among the enabled ones from the
generated schedule (a list of small integers) and hands the token over.  Blocking is modelled
(a thread acquiring a held lock becomes disabled until release); a state with unfinished
threads of which none is enabled is a deadlock.  Executions are a pure function of
(programs, schedule).

No source hook: ZODB creates its locks through ZODB.utils.Lock/RLock/Condition (and the name
Lock imported into ZODB.mvccadapter); these names are bound to the classes below.  Without an
active scheduler they are single-thread "strict" locks (vlib.locks semantics): a blocking
acquire of a held lock raises WouldBlockForever.
"""
import sys
import threading

from vlib.locks import WouldBlockForever

ACTIVE = None            # the running Scheduler or None
MAX_STEPS = 60000


class SchedAbort(BaseException):
    """unwinds a virtual thread when the run is torn down (deadlock, step budget)"""


class VThread:
    def __init__(self, name, fn):
        self.name = name
        self.fn = fn
        self.sem = threading.Semaphore(0)
        self.state = 'ready'        # ready | blocked | finished
        self.blocked_on = None
        self.exc = None
        self.real = None

    def __repr__(self):
        return '<VThread %s %s>' % (self.name, self.state)


class Scheduler:
    def __init__(self, choices, max_steps=MAX_STEPS):
        # two schedule forms: a list of small integers (one choice per yield point with >= 2 enabled
        # threads), or {'segments': [[cls, n, k], ...]}: the running thread keeps the token until the
        # n-th yield point of class cls (release/acquire/file/line/any), then thread k of the others runs;
        # after the last segment nothing is preempted any more (few, targeted preemptions)
        self.segments = None
        if isinstance(choices, dict):
            self.segments = [list(x) for x in choices['segments']]
            self.si = 0
            self.countdown = self.segments[0][1] if self.segments else 0
            choices = []
        self.choices = list(choices)
        self.ci = 0
        self.threads = []
        self.current = None
        self.steps = 0
        self.max_steps = max_steps
        self.aborting = False
        self.problem = None         # ('deadlock' | 'step-budget', detail)
        self.done = threading.Event()
        self.by_ident = {}
        self.switches = 0
        self.preempt_points = []    # labels of yield points at which a switch happened
        self.clock = 0              # global event counter (total order of harness events)

    # ---- setup
    def spawn(self, name, fn):
        t = VThread(name, fn)
        self.threads.append(t)
        return t

    def run(self, timeout=60):
        global ACTIVE
        assert ACTIVE is None
        ACTIVE = self
        try:
            for t in self.threads:
                t.real = threading.Thread(target=self._body, args=(t,), name='v-' + t.name, daemon=True)
                t.real.start()
            first = self._choose(None)
            if first is not None:
                self.current = first
                first.sem.release()
            else:
                self.done.set()
            if not self.done.wait(timeout):
                self.problem = self.problem or ('watchdog', 'no completion within %ds (step %d, current %r)' % (
                    timeout, self.steps, self.current))
                self._abort_all()
            for t in self.threads:
                t.real.join(5)
        finally:
            ACTIVE = None
        return self

    # ---- thread body
    def _body(self, t):
        self.by_ident[threading.get_ident()] = t
        t.sem.acquire()
        try:
            if self.aborting:
                raise SchedAbort()
            t.fn()
        except SchedAbort:
            pass
        except BaseException as e:       # noqa: B902  recorded, judged by the check
            t.exc = e
        finally:
            t.state = 'finished'
            if not self.aborting:
                nxt = self._choose(t)
                if nxt is None:
                    self.done.set()
                else:
                    self.current = nxt
                    nxt.sem.release()

    def me(self):
        return self.by_ident.get(threading.get_ident())

    # ---- choosing
    def _enabled(self):
        return [t for t in self.threads if t.state == 'ready']

    def _choose(self, cur, label=None):
        """next thread to run, or None (all finished, or problem recorded)"""
        en = self._enabled()
        if not en:
            if any(t.state != 'finished' for t in self.threads):
                self.problem = ('deadlock', '; '.join('%s waits for %s' % (t.name, t.blocked_on)
                                                     for t in self.threads if t.state == 'blocked'))
                self._abort_all()
            return None
        if len(en) == 1:
            return en[0]
        if self.segments is not None:
            seg = self.segments[self.si] if self.si < len(self.segments) else None
            if cur not in en:
                # the running thread blocked or finished: no preemption, a successor is needed
                k = seg[2] if seg else 0
                i = self.threads.index(cur) if cur in self.threads else -1      # (-1: the generated starter)
                order = [t for t in self.threads[i + 1:] + self.threads[:i + 1] if t in en]
                return order[k % len(order)]
            if seg is None:
                return cur
            cls = seg[0]
            if cls == 'any' or (label or '').startswith(cls):
                self.countdown -= 1
                if self.countdown <= 0:
                    others = [t for t in en if t is not cur]
                    self.si += 1
                    if self.si < len(self.segments):
                        self.countdown = self.segments[self.si][1]
                    return others[seg[2] % len(others)]
            return cur
        # rotate so that index 0 = keep running the current thread (if it is enabled)
        if cur in en:
            i = en.index(cur)
            en = en[i:] + en[:i]
        k = self.choices[self.ci] if self.ci < len(self.choices) else 0
        self.ci += 1
        return en[k % len(en)]

    def _abort_all(self):
        self.aborting = True
        for t in self.threads:
            if t.state != 'finished':
                t.state = 'ready'
                t.sem.release()
        self.done.set()

    # ---- yield points (called by the running virtual thread only)
    def yield_point(self, label=''):
        cur = self.me()
        if cur is None or cur is not self.current:
            return
        if self.aborting:
            raise SchedAbort()
        self.steps += 1
        if self.steps > self.max_steps:
            self.problem = ('step-budget', 'more than %d yield points' % self.max_steps)
            self._abort_all()
            raise SchedAbort()
        nxt = self._choose(cur, label)
        if nxt is None or nxt is cur:
            return
        self.switches += 1
        if len(self.preempt_points) < 200:
            self.preempt_points.append(label)
        self.current = nxt
        nxt.sem.release()
        cur.sem.acquire()
        if self.aborting:
            raise SchedAbort()

    def block(self, on):
        """the running thread cannot proceed until `on` changes: disable it and run another"""
        cur = self.me()
        cur.state = 'blocked'
        cur.blocked_on = on
        nxt = self._choose(cur)
        if nxt is None:
            # deadlock (abort already signalled) or everything else finished
            if self.aborting:
                cur.sem.acquire()
                raise SchedAbort()
            self.problem = ('deadlock', '%s waits for %s and nobody can run' % (cur.name, on))
            self._abort_all()
            cur.sem.acquire()
            raise SchedAbort()
        self.switches += 1
        self.current = nxt
        nxt.sem.release()
        cur.sem.acquire()
        if self.aborting:
            raise SchedAbort()

    def wake(self, pred):
        for t in self.threads:
            if t.state == 'blocked' and pred(t.blocked_on):
                t.state = 'ready'
                t.blocked_on = None

    def tick(self):
        self.clock += 1
        return self.clock


def _vt():
    s = ACTIVE
    if s is None:
        return None, None
    return s, s.me()


# --------------------------------------------------------------------------------------
# locks

STRICT = [True]


def _creator_name():
    """class of the object whose code creates the lock (FileStorage, FilePool, MVCCAdapterInstance, DB, ...):
    yield points carry it, so that a schedule can name 'the n-th release of the pool's lock'"""
    f = sys._getframe(2)
    for _ in range(4):
        if f is None:
            break
        if f.f_code.co_filename != __file__:
            me = f.f_locals.get('self')
            return type(me).__name__ if me is not None else f.f_code.co_name
        f = f.f_back
    return '?'


class VLock:
    reentrant = False

    def __init__(self):
        self._owner = None
        self._count = 0
        self.name = _creator_name()

    def _me(self):
        s, t = _vt()
        return t if t is not None else threading.get_ident()

    def acquire(self, blocking=True, timeout=-1):
        s, t = _vt()
        me = t if t is not None else threading.get_ident()
        if s is not None and t is not None:
            s.yield_point('acquire:' + self.name)
        while True:
            if self._owner is None:
                self._owner, self._count = me, 1
                return True
            if self.reentrant and self._owner == me:
                self._count += 1
                return True
            if not blocking:
                return False
            if s is None or t is None:
                if STRICT[0]:
                    raise WouldBlockForever('blocking acquire of a held lock in a single-threaded program')
                raise RuntimeError('VLock used by concurrent real threads without a scheduler')
            s.block(self)

    def release(self):
        me = self._me()
        if self._owner is None or (self.reentrant and self._owner != me):
            raise RuntimeError('release unlocked lock' if self._owner is None else 'cannot release un-acquired lock')
        self._count -= 1
        if self._count == 0:
            self._owner = None
            s, t = _vt()
            if s is not None:
                s.wake(lambda on: on is self)
                if t is not None:
                    s.yield_point('release:' + self.name)

    def locked(self):
        return self._owner is not None

    def __enter__(self):
        self.acquire()
        return self

    def __exit__(self, *a):
        self.release()

    # for Condition
    def _release_save(self):
        c = self._count
        self._count = 0
        self._owner = None
        s, t = _vt()
        if s is not None:
            s.wake(lambda on: on is self)
        return c

    def _acquire_restore(self, c):
        s, t = _vt()
        me = t if t is not None else threading.get_ident()
        while self._owner is not None:
            if s is None or t is None:
                raise WouldBlockForever('condition re-acquire of a held lock')
            s.block(self)
        self._owner, self._count = me, c


class VRLock(VLock):
    reentrant = True


class VCondition:
    def __init__(self, lock=None):
        self._lock = lock if lock is not None else VRLock()
        self.acquire = self._lock.acquire
        self.release = self._lock.release
        self._waiters = []

    def __enter__(self):
        self._lock.acquire()
        return self

    def __exit__(self, *a):
        self._lock.release()

    def wait(self, timeout=None):
        s, t = _vt()
        if s is None or t is None:
            raise WouldBlockForever('Condition.wait() in a single-threaded program')
        token = object()
        self._waiters.append(token)
        c = self._lock._release_save()
        try:
            while token in self._waiters:
                s.block(('cond', id(self), token))
        finally:
            if token in self._waiters:
                self._waiters.remove(token)
            self._lock._acquire_restore(c)
        return True

    def notify(self, n=1):
        s, t = _vt()
        woken = self._waiters[:n]
        del self._waiters[:n]
        if s is not None:
            s.wake(lambda on: isinstance(on, tuple) and on[0] == 'cond' and on[2] in woken)

    def notify_all(self):
        self.notify(len(self._waiters))

    notifyAll = notify_all


_installed = [False]


def install():
    """bind the scheduler-aware lock classes in ZODB (idempotent); strict single-thread semantics
    unless a Scheduler is running"""
    import ZODB.mvccadapter
    import ZODB.utils
    from vlib import locks
    if not _installed[0]:
        ZODB.utils.Lock = VLock
        ZODB.utils.RLock = VRLock
        ZODB.utils.Condition = VCondition
        ZODB.mvccadapter.Lock = VLock
        locks._installed[0] = True       # supersedes vlib.locks.StrictLock
        _installed[0] = True
    STRICT[0] = True


# --------------------------------------------------------------------------------------
# file-operation yield points

class YieldingFile:
    """thin proxy: the yield is taken BEFORE entering the buffered object (no C-level buffer lock
    is ever held across a switch)"""
    _METHODS = {'read', 'write', 'seek', 'flush', 'truncate', 'tell', 'close', 'readinto', 'readline'}

    def __init__(self, f):
        object.__setattr__(self, '_f', f)

    def __getattr__(self, name):
        v = getattr(self._f, name)
        if name in YieldingFile._METHODS:
            def call(*a, **kw):
                s = ACTIVE
                if s is not None:
                    s.yield_point('file.' + name)
                return v(*a, **kw)
            return call
        return v

    def __setattr__(self, name, v):
        setattr(self._f, name, v)

    def __enter__(self):
        self._f.__enter__()
        return self

    def __exit__(self, *a):
        return self._f.__exit__(*a)

    def __iter__(self):
        return iter(self._f)


# --------------------------------------------------------------------------------------
# optional line-level yield points (sys.monitoring), to make a removed lock observable

TOOL = 4


def watch_lines(funcs):
    """every source line of the given functions becomes a yield point while a scheduler runs"""
    mon = sys.monitoring
    try:
        mon.use_tool_id(TOOL, 'verif-sched')
    except ValueError:
        pass

    def on_line(code, line):
        s = ACTIVE
        if s is not None:
            s.yield_point('line:%s:%d' % (code.co_name, line))
    mon.register_callback(TOOL, mon.events.LINE, on_line)
    for f in funcs:
        code = getattr(f, '__code__', None) or getattr(getattr(f, '__func__', None), '__code__', None)
        if code is not None:
            mon.set_local_events(TOOL, code, mon.events.LINE)


def unwatch_lines(funcs):
    mon = sys.monitoring
    for f in funcs:
        code = getattr(f, '__code__', None) or getattr(getattr(f, '__func__', None), '__code__', None)
        if code is not None:
            try:
                mon.set_local_events(TOOL, code, 0)
            except ValueError:
                pass
