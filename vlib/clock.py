"""Harness clock (DESIGN 2.6): the `time` name in the ZODB modules that stamp transactions."""
import time as _real

START = 1_700_000_000.0


class Clock:
    def __init__(self):
        self.now = START

    def time(self):
        return self.now

    def advance(self, dt=1.0):
        self.now += dt

    def __getattr__(self, name):
        return getattr(_real, name)


CLOCK = Clock()
_MODS = ['ZODB.BaseStorage', 'ZODB.FileStorage.FileStorage', 'ZODB.MappingStorage', 'ZODB.utils',
         'ZODB.DB', 'ZODB.Connection', 'ZODB.ActivityMonitor']


def install():
    import importlib
    import sys
    for m in _MODS:
        importlib.import_module(m)
        mod = sys.modules[m]
        assert hasattr(mod, 'time'), m
        mod.time = CLOCK
    return CLOCK


def reset():
    CLOCK.now = START
    return CLOCK
