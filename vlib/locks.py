"""Strict commit locks for single-threaded checks (DESIGN 2.5, strict mode).

ZODB creates its commit locks through the name ZODB.utils.Lock.  In a single-threaded
program a blocking acquire of a lock that is already held can never succeed; the strict
lock raises WouldBlockForever at once - the deterministic form of "blocks no one"."""
import threading


class WouldBlockForever(RuntimeError):
    pass


class StrictLock:
    def __init__(self):
        self._l = threading.Lock()

    def acquire(self, blocking=True, timeout=-1):
        if self._l.acquire(False):
            return True
        if blocking and STRICT[0]:
            raise WouldBlockForever('blocking acquire of a held lock in a single-threaded program')
        if not blocking:
            return False
        return self._l.acquire(True, timeout)

    def release(self):
        self._l.release()

    def locked(self):
        return self._l.locked()

    def __enter__(self):
        self.acquire()
        return self

    def __exit__(self, *a):
        self.release()


STRICT = [False]
_installed = [False]


def install(strict=True):
    import ZODB.utils
    import ZODB.mvccadapter
    if not _installed[0]:
        ZODB.utils.Lock = StrictLock
        _installed[0] = True
    STRICT[0] = strict
