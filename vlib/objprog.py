"""Connection programs over persistent mappings, lists and custom objects (C11, C12):
Hypothesis strategies, the object-level model and the interpreter.

Objects are named; every object stores its own name so that references can be identified.
Kinds: 'N' Node (attributes), 'M' PersistentMapping (keys), 'L' PersistentList (positions),
'R' the database root (PersistentMapping; slots = keys).  Slot values: ('i', int) |
('r', name) direct reference | ('rl', name) reference inside a plain list | ('rd', name)
reference inside a plain dict.
"""
import copy

from hypothesis import strategies as st

SLOTS = ['s0', 's1', 's2']
KINDS = ['N', 'M', 'L']


# --------------------------------------------------------------------------------------
# real objects

def make_obj(kind, name):
    from persistent.list import PersistentList
    from persistent.mapping import PersistentMapping
    from vlib.vclasses import Node
    if kind == 'N':
        o = Node()
        o.name = name
        for s in SLOTS:
            setattr(o, s, 0)
    elif kind == 'M':
        o = PersistentMapping()
        o['name'] = name
        for s in SLOTS:
            o[s] = 0
    else:
        o = PersistentList([name, 0, 0, 0])
    return o


def kind_of(obj, name=None):
    from persistent.list import PersistentList
    from persistent.mapping import PersistentMapping
    if isinstance(obj, PersistentList):
        return 'L'
    if isinstance(obj, PersistentMapping):
        return 'R' if 'name' not in obj else 'M'
    return 'N'


def name_of(obj):
    k = kind_of(obj)
    if k == 'N':
        return obj.name
    if k == 'M':
        return obj['name']
    if k == 'R':
        return 'root'
    return obj[0]


def raw_get(obj, slot):
    k = kind_of(obj)
    if k == 'N':
        return getattr(obj, slot)
    if k in 'MR':
        return obj[slot]
    return obj[1 + SLOTS.index(slot)]


def raw_set(obj, slot, v):
    k = kind_of(obj)
    if k == 'N':
        setattr(obj, slot, v)
    elif k in 'MR':
        obj[slot] = v
    else:
        obj[1 + SLOTS.index(slot)] = v


def canon(v):
    import persistent
    if isinstance(v, int):
        return ('i', v)
    if isinstance(v, persistent.Persistent):
        return ('r', name_of(v))
    if isinstance(v, list):
        return ('rl', name_of(v[0]))
    if isinstance(v, dict):
        return ('rd', name_of(v['x']))
    raise TypeError(v)


def read_obj(obj):
    """canonical state {slot: value}"""
    if kind_of(obj) == 'R':
        return {k: canon(obj[k]) for k in obj.keys()}
    return {s: canon(raw_get(obj, s)) for s in SLOTS}


def wrap(how, target):
    if how == 'r':
        return target
    if how == 'rl':
        return [target]
    return {'x': target}


# --------------------------------------------------------------------------------------
# strategies

def op_strategy(features):
    n = st.integers(0, 7)
    slot = st.sampled_from(SLOTS)
    hows = st.sampled_from(['r', 'r', 'rl', 'rd'])
    ops = [
        st.tuples(st.just('set'), n, slot, st.integers(1, 9)),
        st.tuples(st.just('set'), n, slot, st.integers(1, 9)),
        st.tuples(st.just('new'), st.sampled_from(KINDS), n, slot, st.sampled_from(['r', 'r', 'rl', 'rd', 'add', 'add+r', 'none'])),
        st.tuples(st.just('new'), st.sampled_from(KINDS), n, slot, st.sampled_from(['r', 'rl', 'rd', 'add', 'add+r'])),
        st.tuples(st.just('link'), n, slot, n, hows),
        st.tuples(st.just('unlink'), n, slot),
        st.tuples(st.just('add'), n),
        st.tuples(st.just('commit')),
        st.tuples(st.just('commit')),
        st.tuples(st.just('abort')),
        st.tuples(st.just('read'), n),
    ]
    if 'fail' in features:
        ops += [st.tuples(st.just('fail_commit'), st.sampled_from(['tpc_begin', 'commit', 'tpc_vote']),
                          st.sampled_from(['before', 'after'])),
                st.tuples(st.just('fail_commit'), st.sampled_from(['commit', 'tpc_vote']), st.just('after')),
                st.tuples(st.just('conflict_commit'), n),
                st.tuples(st.just('pickle_fail_commit'), n),
                st.tuples(st.just('pickle_fail_commit'), n, st.just('foreign')),
                st.tuples(st.just('close_reopen')),
                st.tuples(st.just('stray_write'), n, slot),
                st.tuples(st.just('minimize'))]
    if 'savepoint' in features:
        # savepoint-heavy mix: long transactions with many savepoints and rollbacks
        ops = [o for o in ops] + [o.map(lambda x: x) for o in (ops[0], ops[2], ops[3], ops[4])]   # (one_of collapses identical objects)
        sp = [st.tuples(st.just('savepoint')), st.tuples(st.just('savepoint')), st.tuples(st.just('savepoint')),
              st.tuples(st.just('rollback'), st.integers(0, 5)),
              st.tuples(st.just('rollback'), st.integers(0, 5)),
              st.tuples(st.just('rollback'), st.integers(0, 1)),
              st.tuples(st.just('rollback'), st.integers(0, 1))]
        ops += sp + [o.map(lambda x: x) for o in sp]
    return st.one_of(*ops).map(list)


# --------------------------------------------------------------------------------------
# the model

class OModel:
    """object-level model of one writer connection (see DESIGN C11/C12)"""

    def __init__(self, lenient_disowned):
        self.committed = {'root': {'kind': 'R', 'slots': {}}}
        self.mem = {'root': {'kind': 'R', 'slots': {}}}     # expected in-memory state of every live object
        self.owned = {'root'}     # have an oid in the writer connection
        self.pending = set()      # stored in a savepoint of the running transaction
        self.added = set()        # explicitly added, not yet stored anywhere
        self.dirty = set()        # owned objects modified since the last savepoint / boundary
        self.dead = set()         # names no longer used by the program
        self.savepoints = []      # [snapshot | None(invalid)]
        self.lenient_disowned = lenient_disowned

    def live(self):
        return [n for n in self.mem if n not in self.dead]

    @staticmethod
    def refs(slots):
        return [v[1] for v in slots.values() if v[0] != 'i']

    def closure(self):
        """names the next store pass (commit or savepoint) writes"""
        stored = set()
        todo = [n for n in self.dirty if n in self.owned] + list(self.added)
        while todo:
            n = todo.pop()
            if n in stored:
                continue
            stored.add(n)
            for r in self.refs(self.mem[n]['slots']):
                if r not in self.owned:
                    todo.append(r)      # implicitly added by reachability
        return stored

    def kill(self, names):
        """disowned objects are not used any more (lenient mode), nor objects referring to them"""
        dead = set(names)
        changed = True
        while changed:
            changed = False
            for n in self.live():
                if n not in dead and n not in self.owned and set(self.refs(self.mem[n]['slots'])) & dead:
                    dead.add(n)
                    changed = True
        self.dead |= dead

    def do_savepoint(self):
        stored = self.closure()
        self.owned |= stored
        self.pending |= stored
        self.dirty, self.added = set(), set()
        self.savepoints.append(copy.deepcopy(({n: self.mem[n] for n in self.owned}, self.owned, self.pending)))
        return stored

    def do_rollback(self, i):
        mem, owned, pending = copy.deepcopy(self.savepoints[i])
        disowned = self.owned - owned
        for n, v in mem.items():
            self.mem[n] = v
        self.owned, self.pending = owned, pending
        self.dirty, self.added = set(), set()
        for j in range(i + 1, len(self.savepoints)):
            self.savepoints[j] = None
        return disowned

    def do_commit(self):
        stored = self.closure() | self.pending
        for n in stored:
            self.committed[n] = copy.deepcopy(self.mem[n])
        self.owned = set(self.committed)
        self.end()
        return stored

    def do_abort(self):
        disowned = self.owned - set(self.committed)
        for n in self.committed:
            if n in self.mem:
                self.mem[n] = copy.deepcopy(self.committed[n])
        self.owned = set(self.committed)
        self.end()
        return disowned

    def end(self):
        self.pending, self.added, self.dirty = set(), set(), set()
        self.savepoints = []


# --------------------------------------------------------------------------------------
# the interpreter

class FailingRM:
    """a second resource manager whose chosen phase raises"""

    class Boom(Exception):
        pass

    def __init__(self, phase, position):
        self.phase = phase
        self.position = position

    def sortKey(self):
        return '!' if self.position == 'before' else '~~~~'

    def _maybe(self, name):
        if self.phase == name:
            raise FailingRM.Boom(name)

    def tpc_begin(self, txn):
        self._maybe('tpc_begin')

    def commit(self, txn):
        self._maybe('commit')

    def tpc_vote(self, txn):
        self._maybe('tpc_vote')

    def tpc_finish(self, txn):
        pass

    def tpc_abort(self, txn):
        pass

    def abort(self, txn):
        pass


def explicit_tm():
    """an explicit-mode transaction manager that begins the next transaction right after each one ends,
    so that programs written for the implicit mode run unchanged"""
    import transaction

    class ExplicitTM(transaction.TransactionManager):
        def __init__(self):
            super().__init__(explicit=True)
            self.begin()

        def commit(self):
            super().commit()
            self.begin()

        def abort(self):
            super().abort()
            self.begin()

        def end_without_begin(self):
            super().abort()
    return ExplicitTM()


class World:
    def __init__(self, storage_factory, out, prop, lenient_disowned, explicit=False):
        import transaction
        import ZODB
        self.out = out
        self.prop = prop
        self.storage_factory = storage_factory
        self.db = ZODB.DB(storage_factory())
        self.explicit = explicit
        self.tm = explicit_tm() if explicit else transaction.TransactionManager()
        self.conn = self.db.open(self.tm)
        self.tm2 = transaction.TransactionManager()
        self.m = OModel(lenient_disowned)
        self.objs = {'root': self.conn.root()}
        self.oids = {'root': b'\0' * 8}
        self.nnew = 0
        self.labels = set()
        self.sps = []
        self.steps = 0
        self.tid_of = {}        # name -> tid of the newest stored revision

    def fail(self, oracle, kind, msg):
        self.out.fail((self.prop, oracle, kind), msg)

    def close(self):
        try:
            self.tm.abort()
            self.tm2.abort()
            self.db.close()
        except Exception:
            pass

    def pick(self, i, owned_or_live='live'):
        names = [n for n in self.m.live()]
        return names[i % len(names)]

    # ---- oracles
    def check_mem(self, where, names=None):
        """every live object shows its expected in-memory state"""
        for n in (names if names is not None else self.m.live()):
            if n in self.m.dead:
                continue
            try:
                got = read_obj(self.objs[n])
            except Exception as e:
                self.fail('object-state', 'unreadable',
                          '%s: object %s cannot be read: %r (expected state %r)' % (where, n, e, self.m.mem[n]['slots']))
                return False
            if got != self.m.mem[n]['slots']:
                self.fail('object-state', 'mismatch',
                          '%s: object %s reads %r ; model says %r' % (where, n, got, self.m.mem[n]['slots']))
                return False
        return True

    def check_ownership(self, where):
        for n in self.m.live():
            o = self.objs[n]
            has = o._p_jar is not None or o._p_oid is not None
            if n in self.m.owned and not (o._p_jar is self.conn and o._p_oid is not None):
                self.fail('ownership', 'should-be-owned', '%s: %s has jar=%r oid=%r' % (where, n, o._p_jar, o._p_oid))
                return False
            if n not in self.m.owned and has:
                self.fail('ownership', 'should-be-disowned',
                          '%s: object %s still has _p_jar=%r _p_oid=%r' % (where, n, o._p_jar, o._p_oid))
                return False
        return True

    def check_disowned(self, names, where):
        for n in names:
            o = self.objs[n]
            if o._p_jar is not None or o._p_oid is not None:
                self.fail('ownership', 'should-be-disowned',
                          '%s: object %s still has _p_jar=%r _p_oid=%r' % (where, n, o._p_jar, o._p_oid))
                return False
        return True

    def check_fresh(self, where):
        """a fresh connection reads exactly the committed states; every reference resolves"""
        c2 = self.db.open(self.tm2)
        try:
            self.tm2.begin()
            for n, st_ in self.m.committed.items():
                try:
                    o = c2.get(self.oids[n])
                    got = read_obj(o)
                except Exception as e:
                    self.fail('fresh-connection', 'unreadable',
                              '%s: committed object %s cannot be read in a fresh connection: %r' % (where, n, e))
                    return False
                if got != st_['slots']:
                    self.fail('fresh-connection', 'mismatch',
                              '%s: fresh connection reads %s as %r ; committed model %r' % (where, n, got, st_['slots']))
                    return False
        finally:
            self.tm2.abort()
            c2.close()
        return True

    def last_txn(self):
        it = self.db.storage.iterator()
        last = None
        for t in it:
            last = (t.tid, sorted(r.oid for r in t), [r.tid for r in t])
        getattr(it, 'close', lambda: None)()
        return last

    # ---- operations
    def modify(self, n):
        if n in self.m.owned:
            self.m.dirty.add(n)

    def step(self, op):
        m = self.m
        k = op[0]
        self.steps += 1
        if k == 'set':
            n = self.pick(op[1])
            if n == 'root':
                return
            raw_set(self.objs[n], op[2], op[3] * 100 + self.steps)
            m.mem[n]['slots'][op[2]] = ('i', op[3] * 100 + self.steps)
            self.modify(n)
        elif k == 'new':
            kind, how = op[1], op[4]
            self.nnew += 1
            name = 'o%d' % self.nnew
            o = make_obj(kind, name)
            self.objs[name] = o
            m.mem[name] = {'kind': kind, 'slots': {s: ('i', 0) for s in SLOTS}}
            if how in ('add', 'add+r'):
                self.conn.add(o)
                m.added.add(name)
                m.owned.add(name)
                self.oids[name] = o._p_oid
                self.labels.add('explicit-add')
            if how not in ('add', 'none'):
                self.link(self.pick(op[2]), op[3], name, 'r' if how == 'add+r' else how)
        elif k == 'link':
            a, b = self.pick(op[1]), self.pick(op[3])
            if b == 'root':
                return
            self.link(a, op[2], b, op[4])
        elif k == 'unlink':
            a = self.pick(op[1])
            if a == 'root':
                slots = m.mem['root']['slots']
                if slots:
                    key = sorted(slots)[0]
                    del self.objs['root'][key]
                    del slots[key]
                    self.modify('root')
                return
            raw_set(self.objs[a], op[2], 0)
            m.mem[a]['slots'][op[2]] = ('i', 0)
            self.modify(a)
        elif k == 'add':
            n = self.pick(op[1])
            if n in m.owned:
                return
            self.conn.add(self.objs[n])
            m.added.add(n)
            m.owned.add(n)
            self.oids[n] = self.objs[n]._p_oid
            self.labels.add('explicit-add')
        elif k == 'read':
            self.check_mem('read', [self.pick(op[1])])
        elif k == 'commit':
            self.commit()
        elif k == 'abort':
            self.abort('abort')
        elif k == 'fail_commit':
            self.fail_commit(op[1], op[2])
        elif k == 'conflict_commit':
            self.conflict_commit(self.pick(op[1]))
        elif k == 'pickle_fail_commit':
            self.pickle_fail_commit(self.pick(op[1]), op[2] if len(op) > 2 else 'pickle')
        elif k == 'close_reopen':
            self.close_reopen()
        elif k == 'minimize':
            self.conn.cacheMinimize()
        elif k == 'stray_write':
            self.stray_write(self.pick(op[1]), op[2])
        elif k == 'savepoint':
            self.savepoint()
        elif k == 'rollback':
            self.rollback(op[1])

    def link(self, a, slot, b, how):
        m = self.m
        if a == 'root':
            slot = b        # root keys are the child names
            how = 'r'
        raw_set(self.objs[a], slot, wrap(how, self.objs[b]))
        m.mem[a]['slots'][slot] = (how, b)
        self.modify(a)
        if how != 'r':
            self.labels.add('nested-reference')

    def had_work(self):
        m = self.m
        return bool(m.dirty or m.added or m.pending)

    def commit(self):
        m = self.m
        before = self.last_txn()
        had_new = bool(m.added) or any(r not in m.owned for n in m.dirty for r in m.refs(m.mem[n]['slots']))
        self.tm.commit()
        stored = m.do_commit()
        for n in stored:
            self.oids[n] = self.objs[n]._p_oid
        noid = sorted(n for n in stored if self.oids[n] is None)
        if noid:
            self.fail('commit-records', 'object-without-oid',
                      'after a successful commit %r (changed or reachable from changed objects) have no oid' % noid)
            return
        after = self.last_txn()
        if stored:
            exp = sorted(self.oids[n] for n in stored)
            if after == before or after is None:
                self.fail('commit-records', 'no-transaction', 'commit of %r stored nothing' % sorted(stored))
                return
            tid, oids, rtids = after
            if oids != exp:
                names = {v: k2 for k2, v in self.oids.items()}
                self.fail('commit-records', 'wrong-record-set',
                          'the commit stored records for %r ; expected exactly %r' % (
                              [names.get(o, o) for o in oids], sorted(stored)))
                return
            if any(t != tid for t in rtids):
                self.fail('commit-records', 'several-tids', 'records of one commit carry different tids')
                return
            for n in stored:
                o = self.objs[n]
                self.tid_of[n] = tid
                if o._p_changed or (o._p_changed is not None and o._p_serial != tid):
                    self.fail('commit-records', 'object-not-clean',
                              'after commit %s has _p_changed=%r _p_serial=%r (commit tid %r)' % (
                                  n, o._p_changed, o._p_serial, tid))
                    return
            # ... and the objects it did NOT write still carry the id of the transaction that wrote them last
            for n in sorted(m.committed):
                o = self.objs.get(n)
                if n in stored or o is None or n not in self.tid_of or o._p_changed is None:
                    continue
                if o._p_serial != self.tid_of[n]:
                    self.fail('commit-records', 'serial-of-unwritten-object',
                              'after a commit that did not write %s it carries _p_serial=%r ; its newest record is %r (this commit: %r)' % (
                                  n, o._p_serial, self.tid_of[n], tid))
                    return
            self.labels.add('commit-with-new' if had_new else 'commit')
        elif after != before:
            self.fail('commit-records', 'unexpected-transaction', 'a commit without changes wrote a transaction')
            return
        self.sps = []
        self.check_mem('after commit') and self.check_ownership('after commit') and self.check_fresh('after commit')

    def abort(self, how):
        m = self.m
        before = self.last_txn()
        interesting = bool(m.dirty & set(m.committed)) and bool(m.owned - set(m.committed))
        self.tm.abort()
        self.after_abort(how, before, interesting)

    def after_abort(self, how, before, interesting):
        m = self.m
        if m.lenient_disowned and m.savepoints and how != 'abort':
            # a commit of a transaction that has savepoints first saves everything once more: new objects
            # created after the last savepoint share the fate of the saved ones (not used again)
            m.owned |= m.closure()
        disowned = m.do_abort()
        self.sps = []
        if self.last_txn() != before:
            self.fail('abort', 'stored-something', 'after %s the storage has a new transaction' % how)
            return
        if not self.check_disowned(disowned, 'after ' + how):
            return
        if m.lenient_disowned:
            m.kill(disowned)
        if interesting:
            self.labels.add('aborted-with-modified-and-new')
        self.check_mem('after ' + how) and self.check_ownership('after ' + how) and self.check_fresh('after ' + how)

    def fail_commit(self, phase, position):
        m = self.m
        if not self.had_work():
            return
        before = self.last_txn()
        interesting = bool(m.dirty & set(m.committed)) and (
            bool(m.owned - set(m.committed)) or any(r not in m.owned for n in m.dirty for r in m.refs(m.mem[n]['slots'])))
        self.tm.get().join(FailingRM(phase, position))
        try:
            self.tm.commit()
        except FailingRM.Boom:
            pass
        else:
            self.fail('fail-commit', 'not-raised', 'commit with a failing participant did not raise')
            return
        self.tm.abort()
        # objects implicitly added during the failed commit are disowned again
        self.labels.add('failed-commit-%s-%s' % (phase, position))
        self.after_abort('failed commit (participant %s fails in %s)' % (position, phase), before, interesting)

    def pickle_fail_commit(self, n, how='pickle'):
        """an object that this commit stores cannot be pickled: the commit raises while storing;
        everything stored so far is aborted.  how='foreign': it refers to an object that belongs to another
        connection of the same database (InvalidObjectReference)"""
        m = self.m
        if not self.had_work() or n == 'root' or n not in m.closure():
            return
        before = self.last_txn()
        interesting = bool(m.dirty & set(m.committed)) and bool(m.owned - set(m.committed))
        o = self.objs[n]
        kind = m.mem[n]['kind']
        poison = lambda: None       # noqa: E731  (not picklable)
        c3 = None
        if how == 'foreign':
            import transaction
            c3 = self.db.open(transaction.TransactionManager())
            poison = c3.root()
            poison._p_activate()
        if kind == 'N':
            o.poison = poison
        elif kind == 'M':
            o['poison'] = poison
        else:
            o.append(poison)
        try:
            self.tm.commit()
        except Exception as e:
            if how == 'foreign':
                if type(e).__name__ != 'InvalidObjectReference':
                    raise
            elif 'pickle' not in (type(e).__name__ + str(e)).lower():
                raise
        else:
            self.fail('pickle-fail-commit', 'not-raised', 'commit of an unpicklable object did not raise'
                      if how != 'foreign' else 'commit of a reference to an object of another connection did not raise')
            return
        finally:
            if c3 is not None:
                c3.transaction_manager.abort()
                c3.close()
        self.tm.abort()
        # repair the object so that the program can go on with it (it reverted if it was committed)
        o = self.objs[n]
        try:
            if kind == 'N':
                if 'poison' in o.__dict__:
                    del o.poison
            elif kind == 'M':
                if 'poison' in o:
                    del o['poison']
            else:
                if len(o) > 4:
                    o.pop()
        except Exception as e:
            if m.lenient_disowned and m.savepoints and n not in m.committed:
                pass        # (a new object already saved by a savepoint: disowned as a ghost, not used again)
            else:
                self.fail('object-state', 'unreadable', 'after the failed commit object %s cannot be used: %r' % (n, e))
                return
        if n in m.committed:
            self.tm.abort()         # the repair of a committed object is itself a change: discard it
        self.labels.add('failed-commit-unpicklable' if how != 'foreign' else 'failed-commit-foreign-reference')
        self.after_abort('failed commit (object %s not picklable)' % n, before, interesting)

    def conflict_commit(self, n):
        """another connection commits a change to n first: the writer's commit must conflict"""
        from ZODB.POSException import ConflictError
        m = self.m
        if n not in m.committed or n not in m.dirty or n == 'root':
            # (any committed object this transaction has changed - also before a savepoint - will do)
            cands = sorted(((m.dirty | m.pending) & set(m.committed)) - {'root'})
            if not cands:
                return
            n = cands[self.steps % len(cands)]
            if n in m.pending and n not in m.dirty:
                self.labels.add('conflict-on-object-saved-by-savepoint')
        before_dirty = set(m.dirty)
        c2 = self.db.open(self.tm2)
        try:
            self.tm2.begin()
            o2 = c2.get(self.oids[n])
            raw_set(o2, 's0', 7000 + self.steps)
            self.tm2.commit()
            self.tid_of[n] = o2._p_serial
        finally:
            c2.close()
        m.committed[n]['slots']['s0'] = ('i', 7000 + self.steps)
        before = self.last_txn()
        interesting = bool(m.owned - set(m.committed)) or any(
            r not in m.owned for x in m.dirty for r in m.refs(m.mem[x]['slots']))
        try:
            self.tm.commit()
        except ConflictError:
            pass
        else:
            self.fail('conflict', 'not-raised', 'commit over a newer revision of %s did not conflict' % n)
            return
        self.tm.abort()
        self.labels.add('conflict')
        self.after_abort('conflicting commit', before, interesting)

    def stray_write(self, n, slot):
        """explicit transaction mode: a write while no transaction is active is refused by the transaction
        manager (NoTransaction); the connection has not joined anything and works normally afterwards"""
        from transaction.interfaces import NoTransaction
        m = self.m
        if not self.explicit or self.had_work() or self.sps or n == 'root' or n not in m.committed:
            return
        o = self.objs[n]
        o._p_activate()
        self.tm.end_without_begin()
        try:
            raw_set(o, slot, -77)
        except NoTransaction:
            self.labels.add('write-outside-transaction-refused')
        else:
            # (the explicit mode's contract: joining fails with NoTransaction - unless the connection
            # wrongly believes it has joined a transaction already)
            self.fail('explicit-mode', 'write-outside-transaction-accepted',
                      'a write to %s while no transaction was active was accepted: the connection did not try to join' % n)
            self.tm.begin()
            return
        # containers mutate their data before they register: drop whatever the refused write left
        o._p_invalidate()
        self.tm.begin()
        self.check_mem('after a refused write outside a transaction', [n])

    def close_reopen(self):
        from ZODB.POSException import ConnectionStateError
        m = self.m
        if self.had_work():
            try:
                self.conn.close()
            except ConnectionStateError:
                self.labels.add('close-refused')
                return
            self.fail('close', 'allowed-inside-transaction', 'close() of a connection joined to a transaction did not raise')
            return
        self.tm.abort()
        m.end()                 # (savepoints taken without any change die with the transaction)
        self.sps = []
        self.conn.close()
        self.conn = self.db.open(self.tm)
        self.labels.add('reopen')
        # plain objects outside the database may refer to objects of the closed connection: not used again
        m.kill([n for n in m.live() if n not in m.owned])
        # objects living in the database are reached again through the new connection
        for n in list(m.committed):
            self.objs[n] = self.conn.get(self.oids[n])
        self.check_mem('after close and reopen') and self.check_ownership('after close and reopen')

    def savepoint(self):
        m = self.m
        sp = self.tm.savepoint()
        stored = m.do_savepoint()
        for n in stored:
            self.oids[n] = self.objs[n]._p_oid
        self.sps.append(sp)
        self.labels.add('savepoint')
        self.check_mem('after savepoint') and self.check_ownership('after savepoint')

    def rollback(self, i):
        m = self.m
        valid = [j for j, s in enumerate(m.savepoints) if s is not None]
        if not valid:
            return
        j = valid[i % len(valid)]
        created_between = bool(m.owned - m.savepoints[j][1])
        repeated = getattr(self, '_rolled', set())
        self.sps[j].rollback()
        disowned = m.do_rollback(j)
        self.labels.add('rollback')
        if j in repeated or j < len(m.savepoints) - 1:
            self.labels.add('rollback-repeated-or-earlier')
            if created_between:
                self.labels.add('rollback-nontrivial')
        repeated.add(j)
        self._rolled = repeated
        if not self.check_disowned(disowned, 'after rollback'):
            return
        if m.lenient_disowned:
            m.kill(disowned)
        self.check_mem('after rollback') and self.check_ownership('after rollback')
