#!/venv/bin/python
"""Sensitivity self-test (DESIGN section 8; not a registered check).

Each mutant is (property, name, file under src/ZODB, old text, new text).  The runner
copies /repo/src to a scratch directory outside /repo and /verif, applies one mutant,
runs the property's quick check against it (VERIF_REPO) and expects exit 1.
usage: run_mutants.py [ID|name ...]   (default: all)"""
import os, shutil, subprocess, sys, tempfile
from concurrent.futures import ThreadPoolExecutor
HERE = os.path.dirname(os.path.abspath(__file__))
VERIF = os.path.dirname(HERE)
sys.path.insert(0, HERE)
from mutants import MUTANTS


def run(m):
    prop, name, path, old, new = m[:5]
    extra = m[5] if len(m) > 5 else []
    d = tempfile.mkdtemp(prefix='mut-')
    try:
        shutil.copytree('/repo/src', os.path.join(d, 'src'), ignore=shutil.ignore_patterns('__pycache__', '*.pyc'))
        f = os.path.join(d, 'src', 'ZODB', path)
        s = open(f).read()
        if s.count(old) != 1:
            return prop, name, 'PATCH-FAILED(%d matches)' % s.count(old), ''
        open(f, 'w').write(s.replace(old, new))
        env = dict(os.environ, VERIF_REPO=d, PYTHONDONTWRITEBYTECODE='1')
        p = subprocess.run(['/venv/bin/python', os.path.join(VERIF, 'run_check.py'), prop, '--tier', 'quick',
                            '--no-evidence', '--workers', '4'] + extra, cwd=VERIF, env=env, capture_output=True, text=True)
        sigs = [l.strip() for l in p.stdout.splitlines() if l.strip().startswith('signature:')]
        verdict = {0: 'MISSED', 1: 'killed', 2: 'HARNESS-ERROR'}.get(p.returncode, 'rc=%d' % p.returncode)
        detail = '; '.join(sigs[:2]) if p.returncode == 1 else (p.stdout + p.stderr)[-400:] if p.returncode == 2 else ''
        return prop, name, verdict, detail
    finally:
        shutil.rmtree(d, ignore_errors=True)


def main():
    sel = sys.argv[1:]
    ms = [m for m in MUTANTS if not sel or m[0] in sel or m[1] in sel]
    with ThreadPoolExecutor(4) as ex:
        for prop, name, verdict, detail in ex.map(run, ms):
            print('%-4s %-40s %-14s %s' % (prop, name, verdict, detail[:300]))
    shutil.rmtree(os.path.join(VERIF, 'replays', 'found'), ignore_errors=True)


if __name__ == '__main__':
    main()
