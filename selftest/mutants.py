"""Hand-written sensitivity mutants: (property, name, file under src/ZODB, old, new)."""
FS = 'FileStorage/FileStorage.py'
MUTANTS = [
 ('C19', 'minkey-absent-prefix-regress', 'fsIndex.py',
  "        if key is None or smallest_prefix != key[:6]:", "        if key is None:"),
 ('C19', 'delitem-leaves-empty-bucket', 'fsIndex.py',
  "        if not tree:\n            del self._data[treekey]", "        pass"),
 ('C19', 'save-drops-last-bucket', 'fsIndex.py',
  "            for k, v in self._data.items():\n                pickler.dump((k, v.toString()))",
  "            for k, v in list(self._data.items())[:max(1, len(self._data)) if len(self._data) < 3 else -1]:\n                pickler.dump((k, v.toString()))"),
 ('C04', 'loadbefore-le', FS,
  "                if h.tid < tid:\n                    break\n\n                pos = h.prev\n                end_tid = h.tid",
  "                if h.tid <= tid:\n                    break\n\n                pos = h.prev\n                end_tid = h.tid"),
 ('C04', 'loadserial-no-backpointer', FS,
  "            if h.plen:\n                return self._file.read(h.plen)\n            else:\n                return self._loadBack_impl(oid, h.back)[0]",
  "            return self._file.read(h.plen)"),
 ('C04', 'no-laterThan', 'BaseStorage.py',
  "                self._ts = t = t.laterThan(self._ts)", "                self._ts = t"),
 ('C04', 'iterator-stop-off-by-one', FS,
  "            if self._stop is not None and h.tid > self._stop:", "            if self._stop is not None and h.tid >= self._stop:"),
 ('C04', 'undolog-skips-after-u', FS,
  "        if status != ' ':\n            return None\n        d = u = b''", "        if status != ' ' or tl > 200 and tl < 260:\n            return None\n        d = u = b''"),
 ('C04', 'mapping-loadbefore-endtid', 'MappingStorage.py',
  "                tids_after = tid_data.keys(tid, None)", "                tids_after = tid_data.keys(ZODB.utils.p64(before + 2), None)"),
 ('C04', 'history-stops-early', FS,
  "                if h.prev:\n                    pos = h.prev\n                else:\n                    return r",
  "                if h.prev and h.plen:\n                    pos = h.prev\n                else:\n                    return r"),
]
MUTANTS += [
 ('C01', 'no-fsync', FS, "        if fsync is not None:\n            fsync(self._file.fileno())\n\n        self._pos = self._nextpos",
  "        self._pos = self._nextpos"),
 ('C01', 'vote-writes-final-status', FS, 'h = TxnHeader(self._tid, tl, "c", len(user),', 'h = TxnHeader(self._tid, tl, self._tstatus, len(user),'),
 ('C01', 'readindex-accepts-checkpoint', FS, "        if pos + (tl + 8) > file_size or status == 'c':\n            # Hm, the data were truncated or the checkpoint flag wasn't\n            # cleared.  They may also be corrupted,\n            # in which case, we don't want to totally lose the data.\n            if not read_only:\n                logger.warning(\"%s truncated, possibly due to damaged\"\n                               \" records at %s\", name, pos)",
  "        if pos + (tl + 8) > file_size:\n            if not read_only:\n                logger.warning(\"%s truncated, possibly due to damaged\"\n                               \" records at %s\", name, pos)"),
 ('C01', 'readindex-short-header-no-truncate', FS, "                logger.warning('%s truncated at %s', name, pos)\n                seek(pos)\n                file.truncate()",
  "                logger.warning('%s truncated at %s', name, pos)"),
 ('C01', 'finish-no-flush-before-fsync', FS, "        self._file.flush()\n        if fsync is not None:\n            fsync(self._file.fileno())",
  "        if fsync is not None:\n            fsync(self._file.fileno())\n        self._file.flush()"),
 ('C01', 'ltid-regress', FS, "        # Only now is this a transaction of the database: an unfinished or\n        # cut-off tail must not be reported as the last transaction.\n        ltid = tid\n", "        pass\n"),
 ('C01', 'truncate-check-off-by-8', FS, "        if pos + (tl + 8) > file_size or status == 'c':", "        if pos + tl > file_size or status == 'c':"),
]
MUTANTS += [
 ('C05', 'abort-no-truncate', FS, "        if self._nextpos:\n            self._file.truncate(self._pos)\n            self._files.flush()\n            self._nextpos = 0",
  "        if self._nextpos:\n            self._files.flush()\n            self._nextpos = 0"),
 ('C05', 'abort-keeps-commit-lock', 'BaseStorage.py', "                self._transaction = None\n            finally:\n                self._commit_lock_release()\n\n    def _abort(self):",
  "                self._transaction = None\n            finally:\n                pass\n\n    def _abort(self):"),

 ('C05', 'clear-temp-keeps-tindex', FS, "    def _clear_temp(self):\n        self._tindex.clear()", "    def _clear_temp(self):\n        pass"),
 ('C05', 'store-no-identity-check', FS, "        if transaction is not self._transaction:\n            raise StorageTransactionError(self, transaction)\n        assert not version\n\n        with self._lock:\n            if oid > self._oid:",
  "        assert not version\n\n        with self._lock:\n            if oid > self._oid:"),
 ('C05', 'mapping-abort-keeps-lock', 'MappingStorage.py', "        self._transaction = None\n        self._commit_lock.release()\n\n    # ZODB.interfaces.IStorage\n    def tpc_begin", "        self._transaction = None\n\n    # ZODB.interfaces.IStorage\n    def tpc_begin"),
 ('C05', 'mapping-abortother-aborts', 'MappingStorage.py', "        if transaction is not self._transaction:\n            return\n        self._transaction = None\n        self._commit_lock.release()", "        self._transaction = None\n        self._commit_lock.release()"),
 ('C05', 'demo-abort-no-changes-abort', 'DemoStorage.py', "            self._transaction = None\n            self.changes.tpc_abort(transaction)\n            self._commit_lock.release()", "            self._transaction = None\n            self._commit_lock.release()"),

 ('C05', 'begin-cleanup-regress', FS, "        if self._nextpos and self._nextpos != self._pos:", "        if False:"),
 ('C05', 'finish-wrongtxn-accepted', FS, "                if transaction is not self._transaction:\n                    raise StorageTransactionError(\n                        \"tpc_finish called with wrong transaction\")", "                if False:\n                    pass"),
]
MUTANTS += [
 ('C09', 'sanity-accepts-pos-beyond-eof', FS, "        if self._file.tell() < pos:\n            return 0  # insane\n        ltid = None", "        ltid = None"),
 ('C09', 'sanity-skips-index-compare', FS, "                if index.get(h.oid, 0) != opos:\n                    return 0  # insane", "                pass"),
 ('C09', 'readindex-ignores-start', FS, "    pos = start\n    seek(start)\n    tid = b'\\0' * 7 + b'\\1'", "    pos = start = max(start, file_size - 200) if start > 4 else start\n    seek(start)\n    tid = b'\\0' * 7 + b'\\1'"),
 ('C09', 'readonly-truncates', FS, "            if not read_only:\n                logger.warning(\"%s truncated, possibly due to damaged\"\n                               \" records at %s\", name, pos)\n                _truncate(file, name, pos)", "            if True:\n                logger.warning(\"%s truncated, possibly due to damaged\"\n                               \" records at %s\", name, pos)\n                _truncate(file, name, pos)"),
 ('C09', 'readonly-saves-index', FS, "    def _save_index(self):\n        \"\"\"Write the database index to a file to support quick startup.\"\"\"\n\n        if self._is_read_only:\n            return", "    def _save_index(self):\n        \"\"\"Write the database index to a file to support quick startup.\"\"\"\n"),
 ('C09', 'readonly-newoid-allowed', 'BaseStorage.py', "    def new_oid(self):\n        if self._is_read_only:\n            raise POSException.ReadOnlyError()\n", "    def new_oid(self):\n"),
 ('C09', 'sanity-regress-unicode', FS, "            except (CorruptedDataError, ValueError):\n                # A stale index", "            except (CorruptedDataError,):\n                # A stale index"),
 ('C09', 'index-load-tolerates-short', 'fsIndex.py', "                v = unpickler.load()\n                if not v:\n                    break", "                try:\n                    v = unpickler.load()\n                except EOFError:\n                    break\n                if not v:\n                    break"),
]
MUTANTS += [
 ('C20', 'restore-no-set-max-oid', FS, "        with self._lock:\n            if oid > self._oid:\n                self.set_max_oid(oid)\n            prev_pos = 0", "        with self._lock:\n            prev_pos = 0"),
 ('C20', 'store-no-set-max-oid', FS, "        with self._lock:\n            if oid > self._oid:\n                self.set_max_oid(oid)\n            old = self._index_get(oid, 0)\n            committed_tid = None", "        with self._lock:\n            old = self._index_get(oid, 0)\n            committed_tid = None"),
 ('C20', 'reopen-ignores-index-max', FS, "    try:\n        maxoid = index.maxKey()\n    except ValueError:", "    try:\n        maxoid = min(index.maxKey(), b'\\0' * 7 + b'\\3')\n    except ValueError:"),
 ('C20', 'demo-newoid-no-base-probe', 'DemoStorage.py', "                        try:\n                            load_current(self.base, oid)\n                        except ZODB.POSException.POSKeyError:\n                            self._next_oid += 1\n                            self._issued_oids.add(oid)\n                            return oid",
  "                        self._next_oid += 1\n                        self._issued_oids.add(oid)\n                        return oid"),
 ('C20', 'demo-newoid-no-issued-check', 'DemoStorage.py', "                if oid not in self._issued_oids:\n                    try:\n                        load_current(self.changes, oid)", "                if True:\n                    try:\n                        load_current(self.changes, oid)"),
 ('C20', 'demo-finish-discards-all-issued', 'DemoStorage.py', "            self._issued_oids.difference_update(self._stored_oids)", "            self._issued_oids.clear()"),
 ('C20', 'newoid-carry-bug', 'BaseStorage.py', "                last_as_long, = _structunpack(\">Q\", last)\n                last = _structpack(\">Q\", last_as_long + 1)", "                last_as_long, = _structunpack(\">Q\", last)\n                last = _structpack(\">Q\", last_as_long - 254)"),
 ('C20', 'mapping-regress', 'MappingStorage.py', "        self._oid = max(self._oid, ZODB.utils.u64(oid))", "        pass"),
 ('C20', 'tmpstore-own-counter', 'Connection.py', "            'getName', 'new_oid', 'sortKey',", "            'getName', 'sortKey',"),
]
MUTANTS += [
 ('C16', 'loadbefore-no-endtid-join', 'DemoStorage.py', "                    result = result[:2] + (\n                        end_tid if end_tid != maxtid else None,\n                    )", "                    pass"),
 ('C16', 'store-compares-changes-only', 'DemoStorage.py', "        try:\n            old = load_current(self, oid)[1]\n        except ZODB.POSException.POSKeyError:\n            old = serial\n\n        if old != serial:", "        try:\n            old = load_current(self.changes, oid)[1]\n        except ZODB.POSException.POSKeyError:\n            old = serial\n\n        if old != serial:"),
 ('C16', 'pack-forwarded-to-base', 'DemoStorage.py', "        try:\n            self.changes.pack(t, referencesf, gc=False)", "        try:\n            self.base.pack(t, referencesf, gc=False)\n            self.changes.pack(t, referencesf, gc=False)"),
 ('C16', 'loadserial-base-first', 'DemoStorage.py', "        try:\n            return self.changes.loadSerial(oid, serial)\n        except ZODB.POSException.POSKeyError:\n            return self.base.loadSerial(oid, serial)", "        return self.base.loadSerial(oid, serial)"),
 ('C16', 'lasttransaction-base', 'DemoStorage.py', "        t = self.changes.lastTransaction()\n        if t == ZODB.utils.z64:\n            t = self.base.lastTransaction()\n        return t", "        t = self.base.lastTransaction()\n        if t == ZODB.utils.z64:\n            t = self.changes.lastTransaction()\n        return t"),
 ('C16', 'history-changes-only', 'DemoStorage.py', "        size -= len(r)\n        if size:", "        size -= len(r)\n        if size and not r:"),
 ('C16', 'gettid-base-first', 'DemoStorage.py', "        try:\n            return self.changes.getTid(oid)\n        except ZODB.POSException.POSKeyError:\n            return self.base.getTid(oid)", "        try:\n            return self.base.getTid(oid)\n        except ZODB.POSException.POSKeyError:\n            return self.changes.getTid(oid)"),
 ('C16', 'tid-fix-regress', 'DemoStorage.py', "                if last != ZODB.utils.z64:\n                    k['tid'] = ZODB.utils.newTid(last)", "                pass"),
 ('C16', 'push-closes-base', 'DemoStorage.py', "        return self.__class__(base=self, changes=changes,\n                              close_base_on_close=False)", "        return self.__class__(base=self, changes=changes)"),
]
FSR = 'fsrecover.py'
MUTANTS += [
 ('C17', 'copy-uses-transaction-tid-for-record', 'BaseStorage.py', "                dest.restore(oid, r.tid, r.data, r.version,\n                             r.data_txn, transaction)", "                dest.restore(oid, tid, r.data or b'', r.version,\n                             r.data_txn, transaction)"),
 ('C17', 'copy-drops-status', 'BaseStorage.py', "        dest.tpc_begin(transaction, tid, transaction.status)", "        dest.tpc_begin(transaction, tid)"),
 ('C17', 'recover-scan-regress', FSR, "                if len(data) < 8096:", "                if False:"),
 ('C17', 'iterator-start-scan-forward-off', FS, "            if h.tid >= start:\n                self._pos = pos\n                return\n\n            pos += h.tlen + 8", "            if h.tid > start:\n                self._pos = pos\n                return\n\n            pos += h.tlen + 8"),
 ('C17', 'recover-drops-empty-txns', FSR, "        if txn is None:\n            undone = undone + npos - pos\n            pos = npos\n            continue", "        if txn is None or npos - pos < 40:\n            undone = undone + npos - pos\n            pos = npos\n            continue"),
 ('C17', 'recover-last-txn-length-ge', FSR, "    if pos + (tl + 8) > file_size:\n        error(\"bad transaction length at %s\", pos)", "    if pos + (tl + 8) >= file_size:\n        error(\"bad transaction length at %s\", pos)"),
 ('C17', 'copy-loses-uncreation', 'BaseStorage.py', "        for r in transaction:\n            oid = r.oid", "        for r in transaction:\n            if r.data is None:\n                continue\n            oid = r.oid"),
]
MUTANTS += [
 ('C06', 'undo-ignores-later-difference', FS, "                    if data_to_be_undone != current_data:\n                        # OK, so the current data is different from", "                    if False:\n                        # OK, so the current data is different from"),
 ('C06', 'undo-creation-writes-old-pointer', FS, "        if not pre:\n            # We're undoing object addition.  We're doing this because\n            # subsequent transactions has no net effect on the state\n            # (possibly because some of them were undos).\n            return \"\", 0, ipos", "        if not pre:\n            return \"\", pos, ipos"),
 ('C06', 'undo-failures-not-raised', FS, "        if failures:\n            raise MultipleUndoErrors(list(failures.items()))\n\n        return tindex", "        return tindex"),
 ('C06', 'undone-oids-not-invalidated', 'mvccadapter.py', "        result = self._storage.undo(transaction_id, transaction)\n        if result:\n            self._undone.update(result[1])\n        return result", "        result = self._storage.undo(transaction_id, transaction)\n        return result"),
 ('C06', 'undo-of-nonundoable-status', FS, "        if th.status != \" \":\n            raise UndoError('non-undoable transaction')", "        pass"),
 ('C06', 'undo-resolve-args-swapped', FS, "            data = self.tryToResolveConflict(\n                oid, ctid, tid, pre_data, current_data)", "            data = self.tryToResolveConflict(\n                oid, tid, ctid, pre_data, current_data)"),
 ('C06', 'undo-copies-current-instead-of-pre', FS, "        if copy:\n            # we can just copy our previous-record pointer forward\n            return \"\", pre, ipos", "        if copy:\n            return \"\", ipos if tpos == 0 and ipos != pos else pre, ipos"),
 ('C06', 'multiundo-ignores-tindex', FS, "        tpos = self._tindex.get(oid, 0)\n        ipos = self._index.get(oid, 0)\n        tipos = tpos or ipos", "        tpos = 0\n        ipos = self._index.get(oid, 0)\n        tipos = tpos or ipos"),
 ('C06', 'db-undomultiple-reversed', 'DB.py', "        for tid in self._tids:\n            self._storage.undo(tid, transaction)", "        for tid in self._tids[:1]:\n            self._storage.undo(tid, transaction)"),
]
FSP = 'FileStorage/fspack.py'
MUTANTS += [
 ('C07', 'isreachable-ignores-reach-ex', FSP, "        return pos in self.reach_ex.get(oid, [])", "        return 0"),
 ('C07', 'skip-reachable-from-future', FSP, "            self.findReachableAtPacktime([z64])\n            self.findReachableFromFuture()", "            self.findReachableAtPacktime([z64])"),
 ('C07', 'packed-record-keeps-prev', FSP, "        h.prev = 0\n        h.back = 0\n        h.plen = len(data)", "        h.back = 0\n        h.plen = len(data)"),
 ('C07', 'packtime-one-tick-late', 'FileStorage/FileStorage.py', "        stop = TimeStamp(*time.gmtime(t)[:5] + (t % 60,)).raw()\n        if stop == z64:\n            raise FileStorageError('Invalid pack time')", "        stop = TimeStamp(*time.gmtime(t + 1)[:5] + ((t + 1) % 60,)).raw()\n        if stop == z64:\n            raise FileStorageError('Invalid pack time')"),
 ('C07', 'mapping-pack-removes-last-le-stop', 'MappingStorage.py', "                tids_to_remove.pop()    # Keep the last, if any\n", "                pass\n"),
 ('C07', 'mapping-gc-regress', 'MappingStorage.py', "                if tid_data.maxKey() > stop:\n                    to_copy.add(oid)", "                pass"),
 ('C07', 'referencesf-skips-bare-oid', 'serialize.py', "        elif isinstance(reference, (bytes, str)):\n            oid = reference\n        else:", "        elif isinstance(reference, (str,)):\n            oid = reference\n        else:"),
 ('C07', 'written-after-fix-regress', FSP, "                    if cur is not None:\n                        self.reachable[dh.oid] = cur\n                        garbage_roots.append(cur)", "                    pass"),
 ('C07', 'copyrest-loses-tindex', FSP, "        self.index.update(self.tindex)\n        self.tindex.clear()\n        self._commit_lock.acquire()", "        self.tindex.clear()\n        self._commit_lock.acquire()"),
]
CONN = 'Connection.py'
MUTANTS += [
 ('C11', 'tpc-abort-keeps-modified', CONN, "        self._cache.invalidate(self._modified)\n        self._invalidate_creating()\n        while self._added:", "        self._invalidate_creating()\n        while self._added:"),
 ('C11', 'abort-skips-invalidate-creating', CONN, "        if self._savepoint_storage is not None:\n            self._abort_savepoint()\n\n        self._invalidate_creating()\n        self._tpc_cleanup()", "        if self._savepoint_storage is not None:\n            self._abort_savepoint()\n\n        self._tpc_cleanup()"),
 ('C11', 'finish-no-serial', CONN, "                if obj is not None and obj._p_changed is not None:\n                    obj._p_changed = 0\n                    obj._p_serial = serial", "                if obj is not None and obj._p_changed is not None:\n                    obj._p_changed = 0"),
 ('C11', 'abort-keeps-added', CONN, "            if oid in self._added:\n                del self._added[oid]\n                if self._cache.get(oid) is not None:\n                    del self._cache[oid]\n                del obj._p_jar\n                del obj._p_oid", "            if oid in self._added:\n                del self._added[oid]\n                if self._cache.get(oid) is not None:\n                    del self._cache[oid]"),
 ('C11', 'close-inside-txn-allowed', CONN, "        if not self._needs_to_join:\n            # We're currently joined to a transaction.\n            raise ConnectionStateError(\"Cannot close a connection joined to \"\n                                       \"a transaction\")", "        pass"),
 ('C11', 'abort-no-invalidate-modified', CONN, "                self._cache.invalidate(oid)\n\n    def _tpc_cleanup(self):", "                pass\n\n    def _tpc_cleanup(self):"),
 ('C11', 'f18-regress', CONN, "            elif oid in self._creating:\n                # A new object that commit() already passed to the", "            elif False:\n                # A new object that commit() already passed to the"),
 ('C12', 'reset-no-index-copy', CONN, "        self.index = index.copy()\n        # The same holds", "        self.index = index\n        # The same holds"),
 ('C12', 'f2-regress', CONN, "        self.creating = creating.copy()", "        self.creating = creating"),
 ('C12', 'rollback-no-abort', CONN, "    def _rollback_savepoint(self, state):\n        self._abort()\n", "    def _rollback_savepoint(self, state):\n"),
 ('C12', 'commit-savepoint-skips-last-oid', CONN, "            oids = sorted(src.index.keys())\n", "            oids = sorted(src.index.keys())[:-1] or sorted(src.index.keys())\n"),
 ('C12', 'rollback-keeps-invalid-cache', CONN, "        index = src.index\n        src.reset(*state)\n        self._cache.invalidate(index)", "        index = src.index\n        src.reset(*state)"),
 ('C12', 'abort-savepoint-no-invalidate', CONN, "        self._cache.invalidate(src.index)\n\n        src.close()", "        src.close()"),
 ('C12', 'tmpstore-load-stale-position', CONN, "        self.index[oid] = self.position\n        self.position += lenght + len(header)", "        self.index.setdefault(oid, self.position)\n        self.position += lenght + len(header)"),
]
BLOB = 'blob.py'
MUTANTS += [
 ('C13', 'blob-abort-no-remove', BLOB, "            clean = self.fshelper.getBlobFilename(oid, serial)\n            if os.path.exists(clean):\n                remove_committed(clean)", "            clean = self.fshelper.getBlobFilename(oid, serial)"),
 ('C13', 'f3-regress', FS, "            self._nextpos = 0\n        # Blob files are put in place by storeBlob(), i.e. before the vote.\n        self._blob_tpc_abort()", "            self._nextpos = 0\n            self._blob_tpc_abort()"),
 ('C13', 'undo-no-blob-copy', FS, "                        if self.is_blob_record(up):", "                        if False and self.is_blob_record(up):"),
 ('C13', 'pack-no-removed-lines', 'FileStorage/fspack.py', "                            if h.oid not in self.gc.reachable:\n                                self.blob_removed.write(\n                                    binascii.hexlify(h.oid) + b'\\n')\n                            else:\n                                self.blob_removed.write(\n                                    binascii.hexlify(h.oid + h.tid) + b'\\n')", "                            pass"),
 ('C13', 'blobstorage-abort-no-cleanup', BLOB, "        if current is None or current is transaction:\n            self._blob_tpc_abort()", "        pass"),
 ('C13', 'blobstorage-foreign-abort-regress', BLOB, "        if current is None or current is transaction:\n            self._blob_tpc_abort()", "        self._blob_tpc_abort()"),
 ('C07', 'blob-dup-check-ignores-reach-ex', FSP, "                        rposs.extend(self.gc.reach_ex.get(h.oid, ()))\n", ""),
 ('C08', 'gc-garbage-roots-strict-regress', FSP, "            self.findReachableAtPacktime(refs, missing_ok=True)", "            self.findReachableAtPacktime(refs)"),
 ('C07', 'gc-revived-garbage-strict-regress', FSP, "                        garbage_roots.append(dh.back)", "                        extra_roots.append(dh.back)"),
 ('C07', 'gc-revived-revision-not-traversed-regress', FSP, "                        garbage_roots.append(dh.back)", "                        pass"),
 ('C07', 'packcopier-data-find-first-record', FSP, "                data_hdr = h\n                data_pos = pos\n", "                data_hdr = h\n                data_pos = pos\n                break\n"),
 ('C10', 'pr-cmp-ignores-database-name', 'ConflictResolution.py', "                self.database_name == other.database_name and\n", ""),
 ('C10', 'pr-cmp-weak-compares-equal', 'ConflictResolution.py', "                not self.weak and\n                not other.weak):", "                True):"),
 ('C10', 'pr-cmp-unequal-instead-of-error', 'ConflictResolution.py', "            raise ValueError(\n                \"can't reliably compare against different \"\n                \"PersistentReferences\")", "            return 1"),
 ('C04', 'deleteobject-accepts-stale-serial', FS, "            if oldserial != committed_tid:\n                raise ConflictError(\n                    oid=oid, serials=(committed_tid, oldserial))\n\n            pos = self._pos\n            here = pos + self._tfile.tell() + self._thl\n            self._tindex[oid] = here\n            new = DataHeader(oid, self._tid, old, pos, 0, 0)", "            pos = self._pos\n            here = pos + self._tfile.tell() + self._thl\n            self._tindex[oid] = here\n            new = DataHeader(oid, self._tid, old, pos, 0, 0)"),
 ('C09', 'time-travel-uses-index-regress', FS, "        r = None if time_travel else self._restore_index()", "        r = self._restore_index()"),
 ('C11', 'close-precheck-regress', 'Connection.py', "                if connection is not self and not connection._needs_to_join:\n                    raise ConnectionStateError(\n                        \"Cannot close a connection joined to a transaction\")", "                pass"),
 ('C13', 'tmpstore-f20-regress', CONN, "        targetname = self._getCleanFilename(oid, self.index[oid])", "        targetname = self._getCleanFilename(oid, 0)"),
 ('C13', 'blob-invalidate-keeps-uncommitted', BLOB, "        if (self._p_blob_uncommitted):\n            os.remove(self._p_blob_uncommitted)\n\n        super()._p_invalidate()", "        super()._p_invalidate()"),
 ('C13', 'consume-copies-without-dirtying', BLOB, "            # We changed the blob state and have to make sure we join the\n            # transaction.\n            self._p_changed = True", "            pass"),
 ('C13', 'append-ignores-committed', BLOB, "                    if self._p_blob_committed:\n                        with open(self._p_blob_committed, 'rb') as fp:\n                            utils.cp(fp, result)", "                    if False:\n                        pass"),
]
SER = 'serialize.py'
MUTANTS += [
 ('C14', 'referencesf-no-bare-oid', SER, "        if isinstance(reference, tuple):\n            oid = reference[0]\n        elif isinstance(reference, (bytes, str)):\n            oid = reference\n        else:\n            assert isinstance(reference, list)\n            continue\n\n        if not isinstance(oid, bytes):\n            assert isinstance(oid, str)\n            # this happens when all bytes in the oid are < 0x80\n            oid = oid.encode('ascii')\n\n        oids.append(oid)\n\n    return oids",
  "        if isinstance(reference, tuple):\n            oid = reference[0]\n        else:\n            continue\n\n        oids.append(oid)\n\n    return oids"),
 ('C14', 'referencesf-weak-as-strong', SER, "        else:\n            assert isinstance(reference, list)\n            continue\n\n        if not isinstance(oid, bytes):\n            assert isinstance(oid, str)\n            # this happens when all bytes in the oid are < 0x80\n            oid = oid.encode('ascii')\n\n        oids.append(oid)\n\n    return oids",
  "        else:\n            assert isinstance(reference, list)\n            oid = reference[1][0]\n\n        if not isinstance(oid, bytes):\n            assert isinstance(oid, str)\n            # this happens when all bytes in the oid are < 0x80\n            oid = oid.encode('ascii')\n\n        oids.append(oid)\n\n    return oids"),
 ('C14', 'load-persistent-bypasses-cache', SER, "        obj = self._cache.get(oid, None)\n        if obj is not None:\n            return obj\n\n        if isinstance(klass, tuple):", "        obj = None\n\n        if isinstance(klass, tuple):"),
 ('C14', 'weakref-target-not-stored', SER, "                        oid = self._jar.new_oid()\n                        target._p_jar = self._jar\n                        target._p_oid = oid\n                        self._stack.append(target)", "                        oid = self._jar.new_oid()\n                        target._p_jar = self._jar\n                        target._p_oid = oid"),
]
MVCC = 'mvccadapter.py'
MUTANTS += [
 ('C15', 'gettid-at-equals-before', 'DB.py', "        before = at.laterThan(at).raw()", "        before = at.raw()"),
 ('C15', 'historical-load-current', MVCC, "        r = self._storage.loadBefore(oid, self._before)\n        if r is None:\n            raise POSException.POSKeyError(oid)\n        return r[:2]", "        r = self._storage.loadBefore(oid, b'\\x7f' + b'\\xff' * 7)\n        if r is None:\n            raise POSException.POSKeyError(oid)\n        return r[:2]"),
 ('C15', 'future-check-removed', 'DB.py', "            if before > last and before > getTID(last, None):\n                raise ValueError(\n                    'cannot open an historical connection in the future.')", "            pass"),
 ('C15', 'historical-pool-ignores-bound', 'DB.py', "    def pop(self, key):\n        pool = self.pools.get(key)\n        if pool is not None:\n            return pool.pop()", "    def pop(self, key):\n        pool = self.pools.get(key) or (list(self.pools.values()) or [None])[0]\n        if pool is not None:\n            return pool.pop()"),
 ('C15', 'datetime-drops-microseconds', 'DB.py', "    args = utc_struct[:5] + (utc_struct[5] + dt.microsecond / 1000000.0,)", "    args = utc_struct[:5] + (utc_struct[5] + 0.0,)"),
]
MUTANTS += [
 ('C02', 'newtransaction-no-invalidate', CONN, "            invalidated = self._cache.cache_data.copy()\n        self._cache.invalidate(invalidated)", "            invalidated = self._cache.cache_data.copy()"),
 ('C02', 'invalidate-finish-skipped', MVCC, "            self._base._invalidate_finish(tid, modified, self)\n            self._ltid = tid\n            func(tid)", "            self._ltid = tid\n            func(tid)"),
 ('C02', 'loadbefore-le', FS, "                if h.tid < tid:\n                    break\n\n                pos = h.prev\n                end_tid = h.tid", "                if h.tid <= tid:\n                    break\n\n                pos = h.prev\n                end_tid = h.tid"),
 ('C02', 'poll-start-not-advanced', MVCC, "            self._start = p64(u64(max(ltid, self._ltid)) + 1)", "            if self._start is None:\n                self._start = p64(u64(max(ltid, self._ltid)) + 1)"),
 ('C02', 'invalidations-cleared-before-read', MVCC, "                result = list(self._invalidations)\n                self._invalidations.clear()\n                return result", "                self._invalidations.clear()\n                result = list(self._invalidations)\n                return result"),
 ('C02', 'mapping-loadbefore-returns-latest', 'MappingStorage.py', "                tid = tids_before[-1]\n                return (tid_data[tid], tid,", "                tid = tid_data.maxKey()\n                return (tid_data[tid], tid,"),
 ('C03', 'fs-store-skips-serial-test', FS, "                if oldserial != committed_tid:\n                    data = self.tryToResolveConflict(oid, committed_tid,\n                                                     oldserial, data)\n                    self._resolved.append(oid)", "                pass"),
 ('C03', 'mapping-store-skips-serial-test', 'MappingStorage.py', "            if serial != old_tid:\n                raise ZODB.POSException.ConflictError(\n                    oid=oid, serials=(old_tid, serial), data=data)", "            pass"),
 ('C03', 'readcurrent-not-checked', CONN, "        for oid, serial in self._readCurrent.items():\n            try:\n                self._storage.checkCurrentSerialInTransaction(\n                    oid, serial, transaction)\n            except ConflictError:\n                self._cache.invalidate(oid)\n                raise", "        pass"),
 ('C03', 'readcurrent-not-cleared', CONN, "    def newTransaction(self, transaction, sync=True):\n        self._readCurrent.clear()", "    def newTransaction(self, transaction, sync=True):"),
 ('C03', 'check-current-compares-ge', 'BaseStorage.py', "    committed_tid = self.getTid(oid)\n    if committed_tid != serial:", "    committed_tid = self.getTid(oid)\n    if committed_tid < serial:"),
 ('C03', 'resolution-uses-new-as-committed', 'ConflictResolution.py', "        resolved = resolve(old, committed, newstate)", "        resolved = resolve(old, newstate, newstate)"),
]
CRM = 'ConflictResolution.py'
MUTANTS += [
 ('C10', 'store-swaps-serials', FS, "                    data = self.tryToResolveConflict(oid, committed_tid,\n                                                     oldserial, data)", "                    data = self.tryToResolveConflict(oid, oldserial,\n                                                     committed_tid, data)"),
 ('C10', 'new-state-as-committed', CRM, "        resolved = resolve(old, committed, newstate)", "        resolved = resolve(old, newstate, committed)"),
 ('C10', 'persistent-id-drops-weak', CRM, "def persistent_id(object):\n    if getattr(object, '__class__', 0) is not PersistentReference:\n        return None\n    return object.data", "def persistent_id(object):\n    if getattr(object, '__class__', 0) is not PersistentReference:\n        return None\n    d = object.data\n    if isinstance(d, list) and d[0] == 'w':\n        return d[1][0]\n    return d"),
 ('C10', 'unresolvable-exception-swallowed-returns-new', CRM, "        logger.exception(\n            \"Unexpected error while trying to resolve conflict on %s\", klass)\n", "        logger.exception(\n            \"Unexpected error while trying to resolve conflict on %s\", klass)\n        return newpickle\n"),
 ('C10', 'unresolvable-cache-poisons-resolvable', CRM, "        if klass in _unresolvable:\n            raise ConflictError", "        if _unresolvable:\n            raise ConflictError"),
 ('C10', 'old-state-from-committed-serial', CRM, "        oldData = self.loadSerial(oid, oldSerial)", "        oldData = self.loadSerial(oid, committedSerial)"),
]
RPZ = 'scripts/repozo.py'
MUTANTS += [
 ('C18', 'incremental-despite-prefix-mismatch', RPZ, "        if reposum == srcsum_backedup:\n            log('doing incremental, starting at: %s', reposz)", "        if True:\n            log('doing incremental, starting at: %s', reposz)"),
 ('C18', 'find-files-date-lt', RPZ, "        if root <= when:\n            needed.append(fname)", "        if root < when:\n            needed.append(fname)"),
 ('C18', 'dat-line-wrong-end', RPZ, "    print(dest, reposz, pos, sum, file=fp)\n    fp.flush()", "    print(dest, reposz, pos + 1, sum, file=fp)\n    fp.flush()"),
 ('C18', 'verify-skips-last-file', RPZ, "    with open(datfile) as fp:\n        for line in fp:\n            fn, startpos, endpos, sum = line.split()\n            startpos = int(startpos)\n            endpos = int(endpos)\n            filename = os.path.join(options.repository,\n                                    os.path.basename(fn))\n            expected_size = endpos - startpos", "    with open(datfile) as fp:\n        lines = fp.readlines()\n        for line in (lines[:-1] or lines):\n            fn, startpos, endpos, sum = line.split()\n            startpos = int(startpos)\n            endpos = int(endpos)\n            filename = os.path.join(options.repository,\n                                    os.path.basename(fn))\n            expected_size = endpos - startpos"),
 ('C18', 'full-backup-copies-whole-file', RPZ, "    log('writing full backup: %s bytes to %s', pos, dest)\n    sum = copyfile(options, dest, 0, pos)", "    pos = os.path.getsize(options.file)\n    log('writing full backup: %s bytes to %s', pos, dest)\n    sum = copyfile(options, dest, 0, pos)"),
 ('C18', 'recover-restores-first-index', RPZ, "            last_base = os.path.splitext(repofiles[-1])[0]", "            last_base = os.path.splitext(repofiles[0])[0]"),
 ('C18', 'quick-verify-ignores-size', RPZ, "            if size != expected_size:\n                raise VerificationFail(\n                    \"%s is %d bytes%s, should be %d bytes\" % (", "            if size != expected_size and not options.quick:\n                raise VerificationFail(\n                    \"%s is %d bytes%s, should be %d bytes\" % ("),
 ('C18', 'f13-regress', RPZ, "        if fn is not None and startpos == endpos:", "        if False:"),
]
MUTANTS += [
 ('C08', 'swap-regress-rename-first', FS, "                            os.link(self._file_name, oldpath)\n", "                            os.rename(self._file_name, oldpath)\n"),
 ('C08', 'pos-not-updated-at-swap', FS, "                    self._initIndex(index, self._tindex)\n                    self._pos = opos", "                    self._initIndex(index, self._tindex)"),
 ('C08', 'pack-in-progress-check-removed', FS, "            if self._pack_is_in_progress:\n                raise FileStorageError('Already packing')\n            self._pack_is_in_progress = True", "            self._pack_is_in_progress = True"),
 ('C08', 'failed-pack-keeps-commit-lock', 'FileStorage/fspack.py', "        except OSError:\n            # most probably ran out of disk space or some other IO error\n            close_files_remove()\n            if self.locked:\n                self._commit_lock.release()\n            raise  # don't succeed silently", "        except OSError:\n            # most probably ran out of disk space or some other IO error\n            close_files_remove()\n            raise  # don't succeed silently"),
 ('C08', 'in-progress-flag-not-reset', FS, "            with self._lock:\n                self._pack_is_in_progress = False\n\n        if not self.pack_keep_old:", "            pass\n\n        if not self.pack_keep_old:"),
 ('C08', 'restore-on-failure-removed', FS, "                        if not os.path.exists(self._file_name):\n                            os.rename(oldpath, self._file_name)\n                        self._file = open(self._file_name, 'r+b')\n                        raise", "                        raise"),
]
EI = 'ExportImport.py'
MUTANTS += [
 ('C14', 'import-never-reuses-remapped-oid', EI, "            if ooid in oids:\n                oid = oids[ooid]\n            else:", "            if False:\n                oid = oids[ooid]\n            else:"),
 ('C14', 'export-skips-second-level', EI, "                referencesf(p, oids)\n                f.writelines([oid, p64(len(p)), p])", "                if len(done_oids) < 2:\n                    referencesf(p, oids)\n                f.writelines([oid, p64(len(p)), p])"),
 ('C15', 'aware-datetime-offset-ignored', 'DB.py', "    utc_struct = dt.utctimetuple()", "    utc_struct = dt.timetuple()"),
 ('C15', 'secondary-connection-not-historical', 'Connection.py', "                transaction_manager=self.transaction_manager,\n                before=self.before,\n            )", "                transaction_manager=self.transaction_manager,\n            )"),
 ('C15', 'multidb-future-check-regress', 'DB.py', "            last = max(db.lastTransaction()\n                       for db in self.databases.values())", "            last = self.lastTransaction()"),
 ('C17', 'blob-copy-as-plain-restore', 'blob.py', "                destination.restoreBlob(record.oid, record.tid, record.data,\n                                        name, record.data_txn, trans)", "                os.remove(name)\n                destination.restore(record.oid, record.tid, record.data,\n                                    '', record.data_txn, trans)"),
 ('C17', 'blob-copy-truncated', 'blob.py', "                with open(blobfilename, 'rb') as sf:\n                    with open(name, 'wb') as df:\n                        utils.cp(sf, df)", "                with open(blobfilename, 'rb') as sf:\n                    with open(name, 'wb') as df:\n                        utils.cp(sf, df, 4096)"),
 ('C17', 'blob-copy-skips-backpointer-records', 'blob.py', "            if is_blob_record(record.data):\n                try:\n                    blobfilename = source.loadBlob(record.oid, record.tid)", "            if record.data_txn is None and is_blob_record(record.data):\n                try:\n                    blobfilename = source.loadBlob(record.oid, record.tid)"),
 ('C17', 'datafind-regress-first-record', 'FileStorage/fspack.py', None, None),
]
MUTANTS = [m for m in MUTANTS if m[3] is not None]
MV = 'mvccadapter.py'
MUTANTS += [
 # schedule-dependent changes: visible only to the thread cases (vlib/sched.py)
 ('C02', 'T-poll-ignores-instance-ltid', MV, "            self._start = p64(u64(max(ltid, self._ltid)) + 1)", "            self._start = p64(u64(ltid) + 1)"),
 ('C02', 'T-mapping-finish-callback-last', 'MappingStorage.py', "        tid = self._tid\n        func(tid)\n\n        tdata = self._tdata", "        tid = self._tid\n\n        tdata = self._tdata"),
 ('C02', 'T-mapping-finish-unlocked', 'MappingStorage.py', "    # ZODB.interfaces.IStorage\n    @ZODB.utils.locked(opened)\n    def tpc_finish(self, transaction, func=lambda tid: None):", "    # ZODB.interfaces.IStorage\n    def tpc_finish(self, transaction, func=lambda tid: None):"),
 ('C02', 'T-invalidate-finish-skips-lock-and-last-instance', MV, "        with self._lock:\n            for instance in self._instances:\n                if instance is not committing_instance:\n                    instance._invalidate(tid, oids)", "        for instance in list(self._instances)[:-1] or self._instances:\n            if instance is not committing_instance:\n                instance._invalidate(tid, oids)"),
 ('C03', 'T-fs-commit-lock-not-taken', FS, None, None),
 ('C20', 'T-base-new-oid-unlocked', 'BaseStorage.py', "        with self._lock:\n            last = self._oid\n            d = byte_ord(last[-1])", "        if 1:\n            last = self._oid\n            d = byte_ord(last[-1])"),
 ('C20', 'T-mapping-new-oid-unlocked', 'MappingStorage.py', "    @ZODB.utils.locked(opened)\n    def new_oid(self):", "    def new_oid(self):"),
]
MUTANTS = [m for m in MUTANTS if m[3] is not None]
MUTANTS += [
 ('C16', 'blob-append-works-on-committed-file', 'blob.py', "                    self._create_uncommitted_file()\n                    result = BlobFile(self._p_blob_uncommitted, mode, self)\n                    if self._p_blob_committed:\n                        with open(self._p_blob_committed, 'rb') as fp:\n                            utils.cp(fp, result)", "                    self._create_uncommitted_file()\n                    if self._p_blob_committed:\n                        os.remove(self._p_blob_uncommitted)\n                        os.link(self._p_blob_committed, self._p_blob_uncommitted)\n                    result = BlobFile(self._p_blob_uncommitted, mode if self._p_blob_committed is None else 'r+', self)\n                    if self._p_blob_committed:\n                        result.seek(0, 2)"),
 ('C16', 'demo-loadblob-no-base-fallback', 'DemoStorage.py', "        try:\n            return self.changes.loadBlob(oid, serial)\n        except ZODB.POSException.POSKeyError:\n            try:\n                return self.base.loadBlob(oid, serial)", "        try:\n            return self.changes.loadBlob(oid, serial)\n        except ZODB.POSException.POSKeyError:\n            try:\n                raise ZODB.POSException.POSKeyError(oid, serial)"),
 ('C16', 'demo-blobify-in-base-blob-dir', 'DemoStorage.py', "            blob_dir = tempfile.mkdtemp('.demoblobs')", "            blob_dir = getattr(getattr(self.base, 'fshelper', None), 'base_dir', None) or tempfile.mkdtemp('.demoblobs')"),
]

# Mutants that no check kills and that were judged EQUIVALENT within the properties' domains (kept for the
# record, not run): name -> why
EQUIVALENT = {
 'truncate-check-off-by-8': 'read_index accepts a last transaction whose trailing 8-byte length is cut off; under the prefix/torn-write '
                            'crash model such a transaction always still has status "c" (the status byte is flipped only after the '
                            'whole transaction is written and synced), so it is dropped by the status test in the same condition',
 'sanity-skips-index-compare': '_check_sanity no longer compares the index entries of the last transaction; an index that passes the '
                               'remaining tests (position is a transaction boundary) and still maps these oids elsewhere needs '
                               'transactions that line up after a pack - the shape of the open known finding of C09 (pre-pack index '
                               'accepted by coincidence); generated histories do not hit it within any budget tried',
}
MUTANTS = [m for m in MUTANTS if m[1] not in EQUIVALENT]
MUTANTS += [
 ('C08', 'T-copyrest-releases-lock-only-at-end', 'FileStorage/fspack.py', None, None),
]
MUTANTS = [m for m in MUTANTS if m[3] is not None and m[1] not in EQUIVALENT]
MUTANTS += [
 ('C09', 'voted-tail-accepted-at-open', FS, "        if pos + (tl + 8) > file_size or status == 'c':", "        if pos + (tl + 8) > file_size:"),
]
