#!/venv/bin/python
"""ast_mutants.py [--per-file K] [--seed S] [--files a.py,b.py] [-j N]: generated (syntax-level) mutants.

Not a check.  A breadth complement to the hand-written mutants (selftest/mutants.py) and the independent seeded
changes (seeded/): small syntactic changes - a comparison operator flipped, a condition negated, and/or swapped, an
integer constant +1, a statement replaced by `pass` - at randomly chosen places of the source files the properties are
anchored in, restricted to lines that the generated cases execute (per-check line coverage written by
selftest/coverage_map.py; run that first).  Each mutant is applied to a scratch copy of /repo/src and run through the
quick checks of those properties whose generated cases execute the changed line, until one reports a violation.
Survivors are listed in selftest/ast_mutants_report.txt for triage: each is either equivalent with respect to every
listed property, or a place where a generator or an oracle does not look."""
import ast
import glob
import json
import os
import random
import shutil
import subprocess
import sys
import tempfile
from concurrent.futures import ThreadPoolExecutor

HERE = os.path.dirname(os.path.abspath(__file__))
VERIF = os.path.dirname(HERE)
COVDIR = os.environ.get('COVDIR', '/dev/shm/verif-cov')
SRC = '/repo/src'

SWAP = {ast.Lt: '<=', ast.LtE: '<', ast.Gt: '>=', ast.GtE: '>', ast.Eq: '!=', ast.NotEq: '==',
        ast.Is: 'is not', ast.IsNot: 'is', ast.In: 'not in', ast.NotIn: 'in'}
TOK = {ast.Lt: '<', ast.LtE: '<=', ast.Gt: '>', ast.GtE: '>=', ast.Eq: '==', ast.NotEq: '!=',
       ast.Is: 'is', ast.IsNot: 'is not', ast.In: 'in', ast.NotIn: 'not in'}
NOISE = ('logger.', 'log(', 'logging.', 'warnings.', 'print(', 'self._log.')


class Src:
    def __init__(self, text):
        self.text = text
        self.lines = text.splitlines(keepends=True)
        self.starts = [0]
        for l in self.lines:
            self.starts.append(self.starts[-1] + len(l.encode('utf8')))
        self.bytes = text.encode('utf8')

    def off(self, lineno, col):
        return self.starts[lineno - 1] + col

    def span(self, node):
        return self.off(node.lineno, node.col_offset), self.off(node.end_lineno, node.end_col_offset)

    def edit(self, a, b, new):
        return (self.bytes[:a] + new.encode('utf8') + self.bytes[b:]).decode('utf8')

    def seg(self, a, b):
        return self.bytes[a:b].decode('utf8')


def candidates(path, covered):
    text = open(path).read()
    src = Src(text)
    tree = ast.parse(text)
    out = []        # (lineno, kind, description, new_text)
    for node in ast.walk(tree):
        ln = getattr(node, 'lineno', None)
        if ln is None or ln not in covered:
            continue
        if isinstance(node, ast.Compare) and len(node.ops) == 1 and type(node.ops[0]) in SWAP:
            a = src.span(node.left)[1]
            b = src.span(node.comparators[0])[0]
            mid = src.seg(a, b)
            tok = TOK[type(node.ops[0])]
            if mid.count(tok) >= 1 and '#' not in mid:
                i = mid.rfind(tok) if tok in ('is', 'in') else mid.find(tok)
                new_mid = mid[:i] + SWAP[type(node.ops[0])] + mid[i + len(tok):]
                out.append((ln, 'cmp', '%s -> %s' % (tok, SWAP[type(node.ops[0])]), src.edit(a, b, new_mid)))
        elif isinstance(node, (ast.If, ast.While)) and not isinstance(node.test, ast.Constant):
            a, b = src.span(node.test)
            out.append((ln, 'neg', 'condition negated', src.edit(a, b, 'not (' + src.seg(a, b) + ')')))
        elif isinstance(node, ast.BoolOp) and len(node.values) == 2:
            a = src.span(node.values[0])[1]
            b = src.span(node.values[1])[0]
            mid = src.seg(a, b)
            tok, new = ('and', 'or') if isinstance(node.op, ast.And) else ('or', 'and')
            if mid.count(tok) == 1 and '#' not in mid:
                out.append((ln, 'bool', '%s -> %s' % (tok, new), src.edit(a, b, mid.replace(tok, new))))
        elif isinstance(node, ast.Constant) and type(node.value) is int and 0 <= node.value < 1000:
            a, b = src.span(node)
            if src.seg(a, b).isdigit():
                out.append((ln, 'const', '%d -> %d' % (node.value, node.value + 1), src.edit(a, b, str(node.value + 1))))
        elif isinstance(node, (ast.Expr, ast.Assign, ast.AugAssign, ast.Delete)):
            if isinstance(node, ast.Expr) and not isinstance(node.value, ast.Call):
                continue        # docstrings, bare names
            a, b = src.span(node)
            seg = src.seg(a, b)
            if seg.lstrip().startswith(NOISE) or node.col_offset == 0:
                continue
            out.append((ln, 'del', 'statement removed: %s' % ' '.join(seg.split())[:70], src.edit(a, b, 'pass')))
    # keep only mutants that still compile
    ok = []
    for c in out:
        try:
            compile(c[3], path, 'exec')
            ok.append(c)
        except SyntaxError:
            pass
    return ok


def run_one(job):
    rel, ln, kind, desc, new_text, checks = job
    d = tempfile.mkdtemp(prefix='amut-')
    try:
        shutil.copytree(SRC, os.path.join(d, 'src'), ignore=shutil.ignore_patterns('__pycache__', '*.pyc'))
        with open(os.path.join(d, 'src', rel), 'w') as f:
            f.write(new_text)
        env = dict(os.environ, VERIF_REPO=d, PYTHONDONTWRITEBYTECODE='1', VERIF_FOUND_DIR=os.path.join(d, 'found'))
        tried = []
        for prop in checks:
            p = subprocess.run(['/venv/bin/python', os.path.join(VERIF, 'run_check.py'), prop, '--tier', 'quick',
                                '--no-evidence', '--workers', '4'], cwd=VERIF, env=env, capture_output=True, text=True)
            tried.append(prop)
            if p.returncode == 1:
                sig = [l.strip() for l in p.stdout.splitlines() if l.strip().startswith('signature:')]
                return job, 'killed by %s %s' % (prop, sig[0][:110] if sig else ''), tried
            if p.returncode == 2:
                return job, 'killed by %s (the check cannot even run: %s)' % (prop, (p.stdout + p.stderr).strip().splitlines()[-1][:90]), tried
        return job, 'SURVIVED', tried
    finally:
        shutil.rmtree(d, ignore_errors=True)


def main():
    import coverage
    args = sys.argv[1:]

    def opt(name, default):
        if name in args:
            v = args[args.index(name) + 1]
            del args[args.index(name):args.index(name) + 2]
            return v
        return default
    per_file = int(opt('--per-file', '12'))
    seed = int(opt('--seed', '1'))
    jobs_n = int(opt('-j', '3'))
    only = opt('--files', '')
    anchored = {}
    for l in open(os.path.join(VERIF, 'properties.jsonl')):
        p = json.loads(l)
        for f in p.get('anchors', {}).get('files', []):
            anchored.setdefault(f, []).append(p['id'])
    per_check = {}
    for f in sorted(glob.glob(os.path.join(COVDIR, 'cov.c*'))):
        c = coverage.CoverageData(basename=f)
        c.read()
        per_check[os.path.basename(f)[4:7].upper()] = c
    if not per_check:
        print('no coverage data in %s: run selftest/coverage_map.py first' % COVDIR)
        return 2
    rnd = random.Random(seed)
    jobs = []
    for rel in sorted(anchored):
        if only and os.path.basename(rel) not in only.split(','):
            continue
        path = os.path.join('/repo', rel)
        if not os.path.exists(path):
            continue
        lines_by_check = {k: set(c.lines(path) or ()) for k, c in per_check.items()}
        covered = set().union(*lines_by_check.values())
        cands = candidates(path, covered)
        rnd.shuffle(cands)
        for ln, kind, desc, new_text in cands[:per_file]:
            # the checks whose generated cases execute this line; the properties anchored in the file first
            checks = [k for k in sorted(lines_by_check) if ln in lines_by_check[k]]
            checks.sort(key=lambda k: (k not in anchored[rel], k))
            checks = checks[:max(6, len([k for k in checks if k in anchored[rel]]))]
            jobs.append((rel[len('src/'):], ln, kind, desc, new_text, checks))
    print('%d mutants' % len(jobs), flush=True)
    rows = []
    with ThreadPoolExecutor(jobs_n) as ex:
        for job, verdict, tried in ex.map(run_one, jobs):
            rel, ln, kind, desc = job[:4]
            row = '%-34s %5d %-5s %-82s %s%s' % (rel, ln, kind, desc[:82], verdict,
                                               ' (ran %s)' % ' '.join(tried) if verdict == 'SURVIVED' else '')
            print(row, flush=True)
            rows.append(row)
    surv = [r for r in rows if 'SURVIVED' in r]
    with open(os.path.join(HERE, 'ast_mutants_report.txt'), 'a') as f:
        f.write('# seed %d, %d per file%s: %d mutants, %d survived\n' % (seed, per_file, ' (%s)' % only if only else '', len(rows), len(surv)))
        f.write('\n'.join(rows) + '\n')
    print('%d mutants, %d survived' % (len(rows), len(surv)))


if __name__ == '__main__':
    sys.exit(main())
