#!/venv/bin/python
"""coverage_map.py [N] [ID ...]: which lines of /repo/src/ZODB do the generated cases of each check execute?

Not a check (nothing here decides a property): a measurement of the *generators' reach*.  For every check
module N generated cases (default 300, VERIF_SEED as usual) and the known replays are executed in one
process under line coverage (coverage.py with the sys.monitoring core, which does not disturb the
scheduler's own line events), the per-check data files are combined and, for the source files the
properties are anchored in, the lines that no check executed are listed in selftest/coverage_report.txt.
A change confined to such a line cannot be seen by any check, so every listed region is either argued to
be outside all properties or is a hole in a generator."""
import glob
import json
import os
import subprocess
import sys

HERE = os.path.dirname(os.path.abspath(__file__))
ROOT = os.path.dirname(HERE)
REPO = os.environ.get('VERIF_REPO', '/repo')
OUT = os.environ.get('COVDIR', '/dev/shm/verif-cov')

CHILD = r'''
import os, sys, pickle, tempfile
sys.path.insert(0, %(root)r)
sys.path.insert(0, %(repo)r + '/src')
import coverage
cov = coverage.Coverage(data_file=%(out)r + '/cov.' + sys.argv[1], source=[%(repo)r + '/src/ZODB'], config_file=False)
cov.start()
from vlib import driver
mod = driver.load_check(sys.argv[1])
known = driver.load_known(mod.PROPERTY)
for e in known:
    p = e.get('replay')
    if p and os.path.exists(os.path.join(%(root)r, p)):
        import json
        try:
            driver.run_case(mod, json.load(open(os.path.join(%(root)r, p)))['case'])
        except Exception as ex:
            print('replay', p, type(ex).__name__, ex)
outp = tempfile.mktemp(prefix='covres-')
driver.worker_main(sys.argv[1], 'quick', int(os.environ.get('VERIF_SEED', '1')), 0, 1, int(sys.argv[2]), outp,
                   set(tuple(e['signature']) for e in known if e['status'] == 'open'))
kind, val = pickle.load(open(outp, 'rb'))
os.unlink(outp)
if kind == 'error':
    print(val)
cov.stop()
cov.save()
print(sys.argv[1], kind)
'''


def main():
    args = sys.argv[1:]
    n = int(args.pop(0)) if args and args[0].isdigit() else 300
    mods = sorted(os.path.basename(p)[:-3] for p in glob.glob(os.path.join(ROOT, 'checks', 'c??_*.py')))
    if args:
        mods = [m for m in mods if m[:3].upper() in [a.upper() for a in args]]
    os.makedirs(OUT, exist_ok=True)
    child = os.path.join(OUT, 'child.py')
    with open(child, 'w') as f:
        f.write(CHILD % {'root': ROOT, 'repo': REPO, 'out': OUT})
    env = dict(os.environ, COVERAGE_CORE='sysmon', PYTHONHASHSEED='0', PYTHONDONTWRITEBYTECODE='1')
    procs = []
    J = int(os.environ.get('J', '6'))
    todo = list(mods)
    while todo or procs:
        while todo and len(procs) < J:
            m = todo.pop(0)
            procs.append((m, subprocess.Popen([sys.executable, child, m, str(n)], env=env, cwd=ROOT,
                                              stdout=subprocess.PIPE, stderr=subprocess.STDOUT, text=True)))
        m, p = procs.pop(0)
        out = p.communicate()[0]
        print(m, 'exit', p.returncode, out.strip().splitlines()[-1:] if out.strip() else '', flush=True)
    import coverage
    files = sorted(glob.glob(os.path.join(OUT, 'cov.c*')))
    anchored = set()
    for l in open(os.path.join(ROOT, 'properties.jsonl')):
        anchored.update(json.loads(l).get('anchors', {}).get('files', []))
    per = {}
    for f in files:
        c = coverage.Coverage(data_file=f, config_file=False)
        c.load()
        per[os.path.basename(f)[4:7].upper()] = c.get_data()
    comb = coverage.Coverage(data_file=os.path.join(OUT, 'combined'), config_file=False)
    comb.combine(files, keep=True)
    comb.save()
    lines = []
    tot_s = tot_m = 0
    for rel in sorted(anchored):
        path = os.path.join(REPO, rel)
        if not os.path.exists(path):
            continue
        try:
            _, stmts, _, missing, _ = comb.analysis2(path)
        except Exception as e:   # noqa: B902
            lines.append('%s: %s' % (rel, e))
            continue
        tot_s += len(stmts)
        tot_m += len(missing)
        src = open(path).read().splitlines()
        lines.append('\n== %s: %d statements, %d never executed (%.0f%% executed)' % (
            rel, len(stmts), len(missing), 100.0 * (len(stmts) - len(missing)) / max(1, len(stmts))))
        run = []
        for ln in missing + [None]:
            if run and (ln is None or ln > run[-1] + 3):
                lines.append('  %d-%d: %s' % (run[0], run[-1], src[run[0] - 1].strip()[:100]))
                run = []
            if ln is not None:
                run.append(ln)
    lines.insert(0, 'cases per check: %d (+ known replays); anchored files: %d statements, %d never executed by any check (%.1f%% executed)'
                 % (n, tot_s, tot_m, 100.0 * (tot_s - tot_m) / max(1, tot_s)))
    with open(os.path.join(HERE, 'coverage_report.txt'), 'w') as f:
        f.write('\n'.join(lines) + '\n')
    print(lines[0])


if __name__ == '__main__':
    main()
