#!/bin/sh
# usage: revert_and_find.sh <repo-commit> <PROPERTY> [extra run_check args]
# Runs a property's quick check against a scratch copy of /repo with one commit reverted;
# used to obtain the regression replay of a "fix:" commit.
set -e
c=$1; p=$2; shift 2
d=$(mktemp -d /tmp/revert-XXXXXX)
cp -r /repo/src $d/src
git -C /repo show $c -- src | (cd $d && patch -R -p1 -s)
cd /verif && VERIF_REPO=$d /venv/bin/python run_check.py $p --no-evidence "$@" | grep -A2 "^VIOLATION" | cut -c1-300
rm -rf $d
