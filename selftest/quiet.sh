#!/bin/sh
# runs every quick check for several seeds on the unchanged tree; prints anything that is not quiet
cd /verif
for s in ${SEEDS:-1 2 3 7 42}; do
  for p in $(/venv/bin/python -c "import json;print(' '.join(c['property_id'] for c in json.load(open('MANIFEST.json'))['checks']))"); do
    out=$(VERIF_SEED=$s /venv/bin/python run_check.py $p --no-evidence 2>&1); rc=$?
    if [ $rc -ne 0 ]; then echo "NOT QUIET seed=$s $p rc=$rc"; echo "$out" | grep -A3 "VIOLATION\|HARNESS" | head -12; fi
  done
  echo "seed $s done"
done
