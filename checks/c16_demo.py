"""C16 — a demo storage never modifies its base and reads as changes-over-base."""
import hashlib
import os

from hypothesis import strategies as st

from vlib import clock, locks, programs
from vlib.driver import Outcome, newdir
from vlib.model import Battery, Model, Z64, p64, u64

PROPERTY = 'C16'
LEVEL = 'exploration'
TECH = 'model-based PBT: base history + demo history vs two-layer (concatenated) history model; base battery and bytes unchanged'
RULE = ('cases = generated base history (mapping or file storage) followed by a generated history applied through '
        'DemoStorage (changes: temporary default, given MappingStorage, FileStorage), with push/pop stacking, stale '
        'stores (conflicts against base revisions), undo (file changes), packs, adversarial new_oid stream; after every '
        'step the full query battery on the demo storage is compared with the model of base transactions followed by '
        'change transactions, the base battery with the base model, and (file base) the base file bytes; evaluations = '
        'queries compared; non-trivial = demo history modifying >= 1 object living in the base (boundary between last '
        'base tid and first change tid is always queried); distinct by program hash')
ASSUMPTIONS = ['DemoStorage.random replaced by a generated stream of small integers',
               'after a pack through the demo storage only the current state and the base are compared (pack may drop '
               'old revisions; C07 covers pack)']
BUDGET = {'quick': {'examples': 1200, 'workers': 8},
          'thorough': {'examples': 20000, 'workers': 16}}

CONFIGS = [('mapping', 'default'), ('mapping', 'mapping'), ('mapping', 'fs'),
           ('fs', 'default'), ('fs', 'mapping'), ('fs', 'fs')]


def strategy(tier):
    n = 7 if tier == 'quick' else 12

    def build(cfg):
        base_kind, changes = cfg
        ballow = {'stale'} | ({'del', 'undo', 'restore'} if base_kind == 'fs' else set())
        dallow = {'stale', 'clock'} | ({'undo'} if changes == 'fs' else set())
        demo_step = st.one_of(
            programs.txn_strategy(dallow), programs.txn_strategy(dallow),
            st.tuples(st.just('push')).map(list), st.tuples(st.just('pop'), st.booleans()).map(list),
            st.tuples(st.just('pack'), st.integers(0, 12), st.sampled_from([None, None, 0])).map(list),
            st.tuples(st.just('clock'), st.sampled_from(['stall', 'back']), st.integers(1, 50)).map(list),
            st.tuples(st.just('alloc'), st.integers(1, 3)).map(list))
        return st.fixed_dictionaries({
            'base': st.just(base_kind), 'changes': st.just(changes),
            'base_prog': programs.program_strategy(base_kind, n, ballow),
            'demo_prog': st.lists(demo_step, min_size=1, max_size=n + 3),
            'rand': st.lists(st.integers(1, 12), min_size=1, max_size=8),
            'allow_known': st.just(False),
        })
    return st.sampled_from(CONFIGS).flatmap(build)


def extra_cases(tier, seed, w, nw):
    return []


class DemoRunner(programs.StorageRunner):
    """drives the demo storage; knows which oids live in the base (for known-finding exclusion)"""
    base_oids = frozenset()
    base_ntxns = 0
    allow_known = False

    def plan_undo(self, txn, pending):
        if txn.tid not in self.top_tids:
            return 'error', []      # only transactions of the top changes layer can be undone
        return super().plan_undo(txn, pending)

    def undo_candidates(self):
        c = [x for x in reversed(self.model.txns) if x.tid in self.top_tids]
        return c or [x for x in reversed(self.model.txns)]

    def is_change_tid(self, tid):
        return tid in self.change_tids


def execute(case):
    import ZODB.DemoStorage
    from ZODB.DemoStorage import DemoStorage
    from ZODB.FileStorage import FileStorage
    from ZODB.MappingStorage import MappingStorage
    from ZODB.serialize import referencesf
    from checks.c20_oids import RandStream
    out = Outcome()
    out.evals = 0
    clock.install()
    locks.install()
    clock.reset()
    d = newdir()
    bdir = os.path.join(d, 'base')
    os.mkdir(bdir)
    # --- base history
    br = programs.StorageRunner(case['base'], bdir, out, PROPERTY)
    br.count_queries = False
    br.run(case['base_prog'], check_each=False)
    if out.failures:
        br.close()
        return out
    base = br.storage
    base_model = br.model
    base_battery = Battery(programs.CAPS[case['base']])
    basefile = os.path.join(bdir, 'Data.fs') if case['base'] == 'fs' else None

    def base_hash():
        if not basefile:
            return None
        with open(basefile, 'rb') as f:
            return hashlib.sha1(f.read()).hexdigest()
    h0 = base_hash()
    real_random = ZODB.DemoStorage.random
    ZODB.DemoStorage.random = RandStream(case['rand'])
    cdir = os.path.join(d, 'changes')
    os.mkdir(cdir)
    nfs = [0]

    def mkchanges():
        if case['changes'] == 'default':
            return None
        if case['changes'] == 'mapping':
            return MappingStorage()
        nfs[0] += 1
        return FileStorage(os.path.join(cdir, 'Changes%d.fs' % nfs[0]))

    demo = DemoStorage(base=base, changes=mkchanges())
    caps = {'history', 'loadSerial', 'iterator'}
    kind = 'demo-fs' if case['changes'] == 'fs' else 'demo'
    r = DemoRunner(kind, cdir, out, PROPERTY, storage=demo, model=base_model.copy())
    r.oids = list(br.oids)
    r.uid = br.uid + 1000
    r.base_oids = frozenset(base_model.oids())
    r.change_tids = set()
    r.allow_known = bool(case.get('allow_known'))
    r.battery = Battery(caps)
    r.can_undo = case['changes'] == 'fs'
    r.skip_uncreated = True
    stack = [(demo, None)]
    layer_tids = [set()]
    r.top_tids = layer_tids[-1]
    modified_base = False
    packed = False
    known_region = False
    try:
        clock.CLOCK.advance(2)
        for op in case['demo_prog']:
            k = op[0]
            cur = r.storage
            if k == 'txn':
                ntx = len(r.model.txns)
                # exclusion of the known-finding region (F14) by construction
                in_known = False
                if any(x[0] == 'undo' for x in op[2]) and case['changes'] == 'fs':
                    r.undo_hits_known_region = False
                    probe_known(r, op)
                    if r.undo_hits_known_region:
                        if not r.allow_known:
                            out.excluded += 1
                            continue
                        in_known = known_region = True
                r.do_txn(op[1], op[2], op[3])
                clock.CLOCK.advance(1)
                for t in r.model.txns[ntx:]:
                    r.change_tids.add(t.tid)
                    layer_tids[-1].add(t.tid)
                    if any(oid in r.base_oids for oid, _ in t.recs):
                        modified_base = True
            elif k == 'push' and len(stack) < 3:
                new = cur.push(mkchanges())
                stack.append((new, cur))
                layer_tids.append(set())
                r.top_tids = layer_tids[-1]
                r.storage = new
                out.label('push')
            elif k == 'pop' and len(stack) > 1:
                # popping discards the changes of the top layer: the model forgets them too
                top, below = stack.pop()
                if len(op) > 1 and op[1]:
                    top.close()         # closing a pushed storage must leave the one below usable
                    out.label('close-pushed')
                else:
                    got = top.pop()
                    if got is not below:
                        out.fail((PROPERTY, 'pop', 'wrong-base'), 'pop() did not return the storage pushed on')
                # transactions committed in the popped layer vanish
                gone = layer_tids.pop()
                r.top_tids = layer_tids[-1]
                r.model = Model([t for t in r.model.txns if t.tid not in gone])
                r.change_tids -= gone
                known = r.model.oids()
                r.oids = [o for o in r.oids if o in known]
                r.storage = below
                out.label('pop')
            elif k == 'pack':
                if op[2] is None and case['changes'] == 'default' and not len(base_model.oids()) and (
                        Z64 not in r.model.oids() or r.model.current(Z64)[1] is None):
                    continue        # garbage collection presupposes a root object (callers' domain)
                try:
                    if op[2] is None:
                        cur.pack(r.pack_time(op[1]), referencesf)
                    else:
                        cur.pack(r.pack_time(op[1]), referencesf, gc=bool(op[2]))
                    out.label('pack')
                except TypeError as e:
                    if 'gc' not in str(e) and "Garbage collection isn't supported" not in str(e):
                        raise
                    out.label('pack-refused')
                except Exception as e:
                    if type(e).__name__ in ('FileStorageError', 'RedundantPackWarning'):
                        out.label('pack-refused')
                    elif type(e).__name__ == 'ValueError' and 'Already packed' in str(e):
                        out.label('pack-refused')
                    else:
                        raise
                packed = True
                clock.CLOCK.advance(1)
            elif k == 'clock':
                r.step(op)
            elif k == 'alloc':
                present = r.model.oids()
                for _ in range(op[1]):
                    oid = cur.new_oid()
                    out.evals += 1
                    if oid in present:
                        cur_rev = r.model.current(oid)
                        if cur_rev[1] is None:
                            out.fail((PROPERTY, 'new_oid', 'id-of-uncreated-object'),
                                     'new_oid returned %d: an object whose creation was undone/deleted but whose '
                                     'revisions are still present in a layer' % u64(oid))
                        else:
                            out.fail((PROPERTY, 'new_oid', 'existing-object'),
                                     'new_oid returned %d which exists in a layer' % u64(oid))
            if out.failures:
                break
            # ---- oracles after every step
            if not packed:
                r.check('demo storage after %s' % k)
            else:
                check_current_only(r, out)
            if out.failures:
                break
            n = base_battery.compare(base, base_model, out, PROPERTY, where='BASE storage after demo %s' % k, light=True)
            out.evals += n
            if h0 != base_hash():
                out.fail((PROPERTY, 'base', 'file-bytes-changed'), 'base data file changed after demo %s' % k)
            if out.failures:
                break
        if known_region and out.failures:
            # everything observed after entering the known-finding region carries its mark
            from vlib.driver import Failure
            out.failures = [Failure((PROPERTY, 'undo-of-first-change-to-base-object', 'reads-differ-from-model'),
                                    'after undoing (file changes layer) the first change to an object living in the '
                                    'base, the demo storage reads the object with the BASE serial and loses the undo '
                                    'revision; %d queries differ, first: %s' % (len(out.failures), out.failures[0].msg))]
    finally:
        ZODB.DemoStorage.random = real_random
        for s_, _ in reversed(stack):
            try:
                s_.close()
            except Exception:
                pass
        try:
            base.close()
        except Exception:
            pass
    out.label('%s/%s' % (case['base'], case['changes']), *r.labels)
    out.nontrivial = modified_base
    if modified_base:
        out.label('modifies-base-object')
    return out


def probe_known(r, op):
    """does this transaction contain an undo in the known-finding region (F14)?  (model only)
    Region: undoing the first record the TOP changes layer holds for an object that already
    existed in a lower layer (base, or the changes of a storage pushed on)."""
    for rec in op[2]:
        if rec[0] == 'undo':
            cands = r.undo_candidates()
            if cands:
                target = cands[rec[1] % len(cands)]
                if target.tid not in r.top_tids:
                    continue
                for oid in target.last_wins():
                    revs = r.model.revisions(oid)
                    idx = [i for i, x in enumerate(revs) if x[0] == target.tid]
                    if idx and idx[0] > 0 and not any(x[0] in r.top_tids for x in revs[:idx[0]]):
                        r.undo_hits_known_region = True


def check_current_only(r, out):
    from vlib.model import q_load
    for oid in sorted(r.model.oids()):
        out.evals += 1
        got = q_load(r.storage, oid)
        exp = r.model.x_load(oid)
        if got not in exp:
            out.fail((PROPERTY, 'load-after-pack', 'mismatch'),
                     'after pack through the demo storage load(%r) -> %r ; model accepts %r' % (
                         oid, str(got)[:80], str(exp)[:120]))
            return


LEVEL_TEXT = ('The demo storage is driven by generated programs on top of a generated base history; every query of the '
              'battery must equal the model "base transactions then change transactions", the base must answer as before '
              'and (file base) be byte-identical. Exploration over 6 base/changes combinations and push/pop stackings.')
LEVEL_NOTE = ('Trusted: reference model; generated random stream in place of DemoStorage.random. Known finding F14 region '
              '(undo of the first change to a base object, file changes) is excluded by construction and replayed separately.')
