"""C16 — a demo storage never modifies its base and reads as changes-over-base."""
import hashlib
import os

from hypothesis import strategies as st

from vlib import clock, locks, programs
from vlib.driver import Outcome, newdir
from vlib.model import Battery, Model, Z64, p64, u64

PROPERTY = 'C16'
LEVEL = 'exploration'
TECH = 'model-based PBT: base history + demo history vs two-layer (concatenated) history model; base battery and bytes unchanged'
RULE = ('cases = generated base history (mapping or file storage) followed by a generated history applied through '
        'DemoStorage (changes: temporary default, given MappingStorage, FileStorage), with push/pop stacking, stale '
        'stores (conflicts against base revisions), undo (file changes), packs, adversarial new_oid stream; after every '
        'step the full query battery on the demo storage is compared with the model of base transactions followed by '
        'change transactions, the base battery with the base model, and (file base) the base file bytes; evaluations = '
        'queries compared; non-trivial = demo history modifying >= 1 object living in the base (boundary between last '
        'base tid and first change tid is always queried); a quarter of the cases are BLOB cases: a blob-capable base '
        '(FileStorage with blob directory, BlobStorage over MappingStorage) filled through a DB, wrapped by DemoStorage with '
        'temporary changes, a blob FileStorage or a BlobStorage(MappingStorage) as changes; generated blob reads, rewrites, '
        'appends, creations, removals, commits, aborts, packs, discarding the demo storage and wrapping the base again; '
        'oracle: a fresh connection reads exactly base-overlaid-with-committed-changes, the base\'s records, data file '
        'bytes and blob directory (names, bytes, inodes) never change, the base alone reads as before; non-trivial blob '
        'case = a committed change to a blob living in the base; distinct by program hash')
ASSUMPTIONS = ['DemoStorage.random replaced by a generated stream of small integers',
               'blob cases: changes storages given explicitly without blob support are outside the domain (the demo storage '
               'then does not provide IBlobStorage); a TypeError from DemoStorage.pack over blobified changes (BlobStorage.pack '
               'has no gc argument) is tolerated: nothing is packed, nothing changes',
               'after a pack through the demo storage only the current state and the base are compared (pack may drop '
               'old revisions; C07 covers pack)']
BUDGET = {'quick': {'examples': 6000, 'workers': 8},
          'thorough': {'examples': 40000, 'workers': 16}}

CONFIGS = [('mapping', 'default'), ('mapping', 'mapping'), ('mapping', 'fs'),
           ('fs', 'default'), ('fs', 'mapping'), ('fs', 'fs')]


def strategy(tier):
    n = 7 if tier == 'quick' else 12

    def build(cfg):
        base_kind, changes = cfg
        ballow = {'stale'} | ({'del', 'undo', 'restore'} if base_kind == 'fs' else set())
        dallow = {'stale', 'clock'} | ({'undo'} if changes == 'fs' else set())
        demo_step = st.one_of(
            programs.txn_strategy(dallow), programs.txn_strategy(dallow),
            st.tuples(st.just('push')).map(list), st.tuples(st.just('pop'), st.booleans()).map(list),
            st.tuples(st.just('pack'), st.integers(0, 12), st.sampled_from([None, None, 0, 1])).map(list),
            st.tuples(st.just('clock'), st.sampled_from(['stall', 'back']), st.integers(1, 50)).map(list),
            st.tuples(st.just('alloc'), st.integers(1, 3)).map(list),
            st.tuples(st.just('alloc_in_txn'), st.integers(1, 3)).map(list))
        return st.fixed_dictionaries({
            'base': st.just(base_kind), 'changes': st.just(changes),
            'base_prog': programs.program_strategy(base_kind, n, ballow),
            'demo_prog': st.lists(demo_step, min_size=1, max_size=n + 3),
            'rand': st.lists(st.integers(1, 12), min_size=1, max_size=8),
            'allow_known': st.just(False),
            # the id generator comes round: the base owns the id right behind the first id the demo storage draws,
            # and its next draw is that first id again
            'collide': st.sampled_from([False, False, False, True]),
        })
    plain = st.sampled_from(CONFIGS).flatmap(build)
    return st.one_of(plain, plain, plain, blob_strategy(n))


def blob_strategy(n):
    """blob-capable base and changes storages (the statement's third storage kind), driven through DB/Connection"""
    from checks.c13_blobs import DATA
    i = st.integers(0, 3)
    dd = st.integers(0, len(DATA) - 1)
    op = st.one_of(
        st.tuples(st.just('write'), i, st.sampled_from(['w', 'w', 'a', 'r+']), dd),
        st.tuples(st.just('write'), i, st.sampled_from(['w', 'a']), dd),
        st.tuples(st.just('create'), i, dd),
        st.tuples(st.just('remove'), i),
        st.tuples(st.just('commit')), st.tuples(st.just('commit')),
        st.tuples(st.just('abort')),
        st.tuples(st.just('read'), i),
        st.tuples(st.just('new-demo')),          # throw the demo storage away, wrap the same base again
        st.tuples(st.just('pack')),
    ).map(list)
    return st.fixed_dictionaries({
        'mode': st.just('blob'),
        'base': st.sampled_from(['fs', 'fs', 'bmap']),
        # (explicitly given changes storages without blob support make a demo storage without blob
        # support - DemoStorage then does not provide IBlobStorage: outside the domain)
        'changes': st.sampled_from(['default', 'default', 'fs-blob', 'bmap']),
        'base_blobs': st.lists(st.tuples(i, dd).map(list), min_size=1, max_size=4),
        'ops': st.lists(op, min_size=2, max_size=n + 5)})


def extra_cases(tier, seed, w, nw):
    return []


class DemoRunner(programs.StorageRunner):
    """drives the demo storage; knows which oids live in the base (for known-finding exclusion)"""
    base_oids = frozenset()
    base_ntxns = 0
    allow_known = False

    def plan_undo(self, txn, pending):
        if txn.tid not in self.top_tids:
            return 'error', []      # only transactions of the top changes layer can be undone
        return super().plan_undo(txn, pending)

    def undo_candidates(self):
        c = [x for x in reversed(self.model.txns) if x.tid in self.top_tids]
        return c or [x for x in reversed(self.model.txns)]

    def is_change_tid(self, tid):
        return tid in self.change_tids


def execute_blob(case):
    import transaction
    import ZODB
    from ZODB.blob import Blob, BlobStorage
    from ZODB.DemoStorage import DemoStorage
    from ZODB.FileStorage import FileStorage
    from ZODB.MappingStorage import MappingStorage
    from checks.c13_blobs import DATA, list_blob_files
    out = Outcome()
    out.evals = 0
    clock.install()
    locks.install()
    clock.reset()
    d = newdir()
    bdir = os.path.join(d, 'base')
    os.mkdir(bdir)
    bblobs = os.path.join(bdir, 'blobs')

    def open_base():
        if case['base'] == 'fs':
            return FileStorage(os.path.join(bdir, 'Data.fs'), blob_dir=bblobs)
        return BlobStorage(bblobs, MappingStorage())
    base = open_base()
    names = ['b0', 'b1', 'b2', 'b3']
    # ---- base history: blobs committed into the base through an ordinary DB
    db = ZODB.DB(base)
    tm = transaction.TransactionManager()
    conn = db.open(tm)
    base_state = {}
    for i, di in case['base_blobs']:
        nme = names[i]
        if nme not in conn.root():
            conn.root()[nme] = Blob()
        with conn.root()[nme].open('w') as f:
            f.write(DATA[di])
        base_state[nme] = DATA[di]
        tm.commit()
        clock.CLOCK.advance(1)
    conn.close()
    if case['base'] == 'fs':
        db.close()
        base = open_base()
    else:
        # (a mapping base cannot be reopened: detach the DB without closing the storage)
        db._mvcc_storage = None
    base_last = base.lastTransaction()
    base_files = list_blob_files(bblobs)
    base_records = [(t.tid, [(r.oid, r.data) for r in t]) for t in base.iterator()]

    def base_hash():
        if case['base'] != 'fs':
            return None
        with open(os.path.join(bdir, 'Data.fs'), 'rb') as f:
            return hashlib.sha1(f.read()).hexdigest()
    h0 = base_hash()
    nch = [0]

    def mkchanges():
        nch[0] += 1
        cd = os.path.join(d, 'changes%d' % nch[0])
        os.mkdir(cd)
        if case['changes'] == 'default':
            return None
        if case['changes'] == 'bmap':
            return BlobStorage(os.path.join(cd, 'blobs'), MappingStorage())
        return FileStorage(os.path.join(cd, 'C.fs'), blob_dir=os.path.join(cd, 'blobs'))

    def check_base(where):
        out.evals += 1
        if base.lastTransaction() != base_last or [(t.tid, [(r.oid, r.data) for r in t]) for t in base.iterator()] != base_records:
            out.fail((PROPERTY, 'blob-base', 'records-changed'), '%s: the base storage has other transactions than before' % where)
            return False
        now = list_blob_files(bblobs)
        if now != base_files:
            diff = sorted(set(now) ^ set(base_files)) or sorted(k for k in now if now[k] != base_files[k])
            out.fail((PROPERTY, 'blob-base', 'blob-files-changed'),
                     '%s: the blob directory of the base changed: %r' % (where, [os.path.join(*k) for k in diff][:3]))
            return False
        if base_hash() != h0:
            out.fail((PROPERTY, 'blob-base', 'file-bytes-changed'), '%s: the base data file changed' % where)
            return False
        return True

    def read_all(c):
        got = {}
        root = c.root()
        for nme in names:
            if nme in root:
                with root[nme].open('r') as f:
                    got[nme] = f.read()
        return got

    demo = DemoStorage(base=base, changes=mkchanges())
    ddb = ZODB.DB(demo)
    dtm = transaction.TransactionManager()
    dconn = ddb.open(dtm)
    committed = dict(base_state)
    work = dict(committed)
    labels = set()
    modified_base = False
    try:
        for op in case['ops']:
            k = op[0]
            clock.CLOCK.advance(0.5)
            root = dconn.root()
            if k == 'write':
                nme = names[op[1]]
                if nme not in work:
                    continue
                mode, data = op[2], DATA[op[3]]
                with root[nme].open(mode) as f:
                    if mode == 'r+':
                        f.seek(0)
                    f.write(data)
                old = work[nme]
                work[nme] = data if mode == 'w' else old + data if mode == 'a' else data + old[len(data):]
                if nme in base_state:
                    labels.add('rewrite-of-base-blob')
            elif k == 'create':
                nme = names[op[1]]
                if nme in work:
                    continue
                root[nme] = Blob()
                with root[nme].open('w') as f:
                    f.write(DATA[op[2]])
                work[nme] = DATA[op[2]]
            elif k == 'remove':
                nme = names[op[1]]
                if nme not in work:
                    continue
                del root[nme]
                del work[nme]
            elif k == 'read':
                nme = names[op[1]]
                if nme not in work:
                    continue
                with root[nme].open('r') as f:
                    got = f.read()
                out.evals += 1
                if got != work[nme]:
                    out.fail((PROPERTY, 'blob-read', 'writer-mismatch'),
                             'the writing connection reads %s as %r ; expected %r' % (nme, got[:40], work[nme][:40]))
                    break
            elif k in ('commit', 'abort', 'pack', 'new-demo'):
                if k == 'commit':
                    dtm.commit()
                    if work != committed and any(work.get(n) != committed.get(n) for n in base_state):
                        modified_base = True
                    committed = dict(work)
                    labels.add('commit')
                else:
                    dtm.abort()
                    work = dict(committed)
                if k == 'pack':
                    try:
                        ddb.pack(clock.CLOCK.now)
                        labels.add('pack')
                    except Exception as e:      # noqa: B902
                        # (BlobStorage.pack has no gc argument: DemoStorage.pack re-raises the TypeError; nothing
                        # is packed, nothing changes - not part of the statement)
                        if type(e).__name__ not in ('FileStorageError', 'PackError') and not (
                                isinstance(e, TypeError) and 'gc' in str(e)):
                            raise
                        labels.add('pack-raised-' + type(e).__name__)
                if k == 'new-demo':
                    # the demo storage is discarded: its changes vanish, the base is what it was
                    dconn.close()
                    ddb.close = lambda: None
                    try:
                        demo.changes.close()
                    except Exception:           # noqa: B902
                        pass
                    demo = DemoStorage(base=base, changes=mkchanges())
                    ddb = ZODB.DB(demo)
                    dconn = ddb.open(dtm)
                    committed = dict(base_state)
                    work = dict(committed)
                    labels.add('new-demo-over-same-base')
                # a second connection reads exactly the committed overlay
                c2 = ddb.open(transaction.TransactionManager())
                try:
                    got = read_all(c2)
                finally:
                    c2.close()
                out.evals += 1
                if got != committed:
                    bad = sorted(n for n in set(got) | set(committed) if got.get(n) != committed.get(n))[0]
                    out.fail((PROPERTY, 'blob-read', 'changes-over-base-mismatch'),
                             'after %s a fresh connection reads %s as %r ; expected %r' % (
                                 k, bad, (got.get(bad) or b'')[:40] if bad in got else 'absent',
                                 committed.get(bad, 'absent') if bad not in committed else committed[bad][:40]))
                    break
                if not check_base('after ' + k):
                    break
        if not out.failures:
            # finally: the base alone still shows its own state
            dtm.abort()
            dconn.close()
            bdb = ZODB.DB(base)
            bc = bdb.open(transaction.TransactionManager())
            got = read_all(bc)
            bc.close()
            out.evals += 1
            if got != base_state:
                out.fail((PROPERTY, 'blob-base', 'reads-differ'), 'the base read directly shows %r ; it held %r' % (
                    {k2: v[:20] for k2, v in got.items()}, {k2: v[:20] for k2, v in base_state.items()}))
            else:
                check_base('at the end')
    finally:
        try:
            dtm.abort()
            demo.close()
        except Exception:                       # noqa: B902
            pass
    out.label('blob-capable', 'blob-base-' + case['base'], 'blob-changes-' + case['changes'], *labels)
    out.nontrivial = modified_base
    return out


def execute(case):
    if case.get('mode') == 'blob':
        return execute_blob(case)
    import ZODB.DemoStorage
    from ZODB.DemoStorage import DemoStorage
    from ZODB.FileStorage import FileStorage
    from ZODB.MappingStorage import MappingStorage
    from ZODB.serialize import referencesf
    from checks.c20_oids import RandStream
    out = Outcome()
    out.evals = 0
    clock.install()
    locks.install()
    clock.reset()
    d = newdir()
    bdir = os.path.join(d, 'base')
    os.mkdir(bdir)
    # --- base history
    br = programs.StorageRunner(case['base'], bdir, out, PROPERTY)
    br.count_queries = False
    br.run(case['base_prog'], check_each=False)
    if out.failures:
        br.close()
        return out
    rand_vals = list(case['rand'])
    demo_prog = list(case['demo_prog'])
    if case.get('collide'):
        # one more base object G with free ids below it; the demo storage's random draws are G-1, G-1, ...
        from ZODB.utils import u64 as _u64
        if case['base'] == 'fs':
            br.storage.set_max_oid(p64(_u64(br.storage._oid) + 3))
        else:
            br.storage._oid += 3
        br.do_txn([0, 0, 0], [['new', 1]], ['finish'])
        clock.CLOCK.advance(1)
        if out.failures:
            br.close()
            return out
        g = max(_u64(o) for o in br.model.oids())
        rand_vals = [g - 1, g - 1] + rand_vals
        demo_prog = [['alloc_in_txn', 2]] + demo_prog
        out.label('id-generator-comes-round')
    base = br.storage
    base_model = br.model
    base_battery = Battery(programs.CAPS[case['base']])
    basefile = os.path.join(bdir, 'Data.fs') if case['base'] == 'fs' else None

    def base_hash():
        if not basefile:
            return None
        with open(basefile, 'rb') as f:
            return hashlib.sha1(f.read()).hexdigest()
    h0 = base_hash()
    real_random = ZODB.DemoStorage.random
    ZODB.DemoStorage.random = RandStream(rand_vals)
    cdir = os.path.join(d, 'changes')
    os.mkdir(cdir)
    nfs = [0]

    def mkchanges():
        if case['changes'] == 'default':
            return None
        if case['changes'] == 'mapping':
            return MappingStorage()
        nfs[0] += 1
        return FileStorage(os.path.join(cdir, 'Changes%d.fs' % nfs[0]))

    demo = DemoStorage(base=base, changes=mkchanges())
    caps = {'history', 'loadSerial', 'iterator'}
    kind = 'demo-fs' if case['changes'] == 'fs' else 'demo'
    r = DemoRunner(kind, cdir, out, PROPERTY, storage=demo, model=base_model.copy())
    r.oids = list(br.oids)
    r.uid = br.uid + 1000
    r.base_oids = frozenset(base_model.oids())
    r.change_tids = set()
    r.allow_known = bool(case.get('allow_known'))
    r.battery = Battery(caps)
    r.can_undo = case['changes'] == 'fs'
    r.skip_uncreated = True
    stack = [(demo, None)]
    layer_tids = [set()]
    r.top_tids = layer_tids[-1]
    modified_base = False
    packed = False
    known_region = False
    try:
        clock.CLOCK.advance(2)
        for op in demo_prog:
            k = op[0]
            cur = r.storage
            if k == 'txn':
                ntx = len(r.model.txns)
                # exclusion of the known-finding region (F14) by construction
                in_known = False
                if case.get('collide') and any(x[0] == 'undo' for x in op[2]):
                    # with the id generator coming round, un-created objects' ids are drawn again: the open known
                    # finding 'id-of-uncreated-object' (then stores conflict) - excluded by construction here
                    out.excluded += 1
                    continue
                if packed and any(x[0] == 'undo' for x in op[2]):
                    # after a pack the history model no longer predicts which transactions can be undone
                    # (status p, re-linked back-pointers): pack + undo is C07's subject
                    out.excluded += 1
                    continue
                if any(x[0] == 'undo' for x in op[2]) and case['changes'] == 'fs':
                    r.undo_hits_known_region = False
                    probe_known(r, op)
                    if r.undo_hits_known_region:
                        if not r.allow_known:
                            out.excluded += 1
                            continue
                        in_known = known_region = True
                r.do_txn(op[1], op[2], op[3])
                clock.CLOCK.advance(1)
                for t in r.model.txns[ntx:]:
                    r.change_tids.add(t.tid)
                    layer_tids[-1].add(t.tid)
                    if any(oid in r.base_oids for oid, _ in t.recs):
                        modified_base = True
            elif k == 'push' and len(stack) < 3:
                new = cur.push(mkchanges())
                stack.append((new, cur))
                layer_tids.append(set())
                r.top_tids = layer_tids[-1]
                r.storage = new
                out.label('push')
            elif k == 'pop' and len(stack) > 1:
                # popping discards the changes of the top layer: the model forgets them too
                top, below = stack.pop()
                if len(op) > 1 and op[1]:
                    top.close()         # closing a pushed storage must leave the one below usable
                    out.label('close-pushed')
                else:
                    got = top.pop()
                    if got is not below:
                        out.fail((PROPERTY, 'pop', 'wrong-base'), 'pop() did not return the storage pushed on')
                # transactions committed in the popped layer vanish
                gone = layer_tids.pop()
                r.top_tids = layer_tids[-1]
                r.model = Model([t for t in r.model.txns if t.tid not in gone])
                r.change_tids -= gone
                known = r.model.oids()
                r.oids = [o for o in r.oids if o in known]
                r.storage = below
                out.label('pop')
            elif k == 'pack':
                if op[2] in (None, 1) and case['changes'] == 'default' and not len(base_model.oids()) and (
                        Z64 not in r.model.oids() or r.model.current(Z64)[1] is None):
                    continue        # garbage collection presupposes a root object (callers' domain)
                try:
                    if op[2] is None:
                        cur.pack(r.pack_time(op[1]), referencesf)
                    else:
                        cur.pack(r.pack_time(op[1]), referencesf, gc=bool(op[2]))
                    out.label('pack')
                except TypeError as e:
                    if 'gc' not in str(e) and "Garbage collection isn't supported" not in str(e):
                        raise
                    out.label('pack-refused')
                except Exception as e:
                    if type(e).__name__ in ('FileStorageError', 'RedundantPackWarning'):
                        out.label('pack-refused')
                    elif type(e).__name__ == 'ValueError' and 'Already packed' in str(e):
                        out.label('pack-refused')
                    else:
                        raise
                packed = True
                clock.CLOCK.advance(1)
            elif k == 'clock':
                r.step(op)
            elif k == 'alloc_in_txn':
                # ids handed out while a transaction that has stored a NEW object is between store and finish:
                # that object's id is issued, not yet in a layer - and not free
                drawn = []
                real_new_oid = cur.new_oid

                def recording_new_oid():
                    drawn.append(real_new_oid())
                    return drawn[-1]
                cur.new_oid = recording_new_oid

                def probe(runner, t, phase, n=op[1]):
                    if phase != 'stored':
                        return
                    mine = set(drawn)       # ids the transaction itself drew for its new objects
                    for _ in range(n):
                        oid = real_new_oid()
                        out.evals += 1
                        if oid in mine:
                            out.fail((PROPERTY, 'new_oid', 'issued-twice-inside-transaction'),
                                     'new_oid returned %d, the id of a new object that the transaction in progress has stored' % u64(oid))
                r.probe = probe
                try:
                    ntx = len(r.model.txns)
                    r.do_txn([0, 0, 0], [['new', 1]], ['finish'])
                finally:
                    r.probe = None
                    del cur.new_oid
                clock.CLOCK.advance(1)
                for t in r.model.txns[ntx:]:
                    r.change_tids.add(t.tid)
                    layer_tids[-1].add(t.tid)
                out.label('alloc-inside-transaction')
            elif k == 'alloc':
                present = r.model.oids()
                for _ in range(op[1]):
                    oid = cur.new_oid()
                    out.evals += 1
                    if oid in present:
                        cur_rev = r.model.current(oid)
                        if cur_rev[1] is None:
                            out.fail((PROPERTY, 'new_oid', 'id-of-uncreated-object'),
                                     'new_oid returned %d: an object whose creation was undone/deleted but whose '
                                     'revisions are still present in a layer' % u64(oid))
                        else:
                            out.fail((PROPERTY, 'new_oid', 'existing-object'),
                                     'new_oid returned %d which exists in a layer' % u64(oid))
            if out.failures:
                break
            # ---- oracles after every step
            if not packed:
                r.check('demo storage after %s' % k)
            else:
                check_current_only(r, out)
            if out.failures:
                break
            n = base_battery.compare(base, base_model, out, PROPERTY, where='BASE storage after demo %s' % k, light=True)
            out.evals += n
            if h0 != base_hash():
                out.fail((PROPERTY, 'base', 'file-bytes-changed'), 'base data file changed after demo %s' % k)
            if out.failures:
                break
        if known_region and out.failures:
            # everything observed after entering the known-finding region carries its mark
            from vlib.driver import Failure
            out.failures = [Failure((PROPERTY, 'undo-of-first-change-to-base-object', 'reads-differ-from-model'),
                                    'after undoing (file changes layer) the first change to an object living in the '
                                    'base, the demo storage reads the object with the BASE serial and loses the undo '
                                    'revision; %d queries differ, first: %s' % (len(out.failures), out.failures[0].msg))]
    finally:
        ZODB.DemoStorage.random = real_random
        for s_, _ in reversed(stack):
            try:
                s_.close()
            except Exception:
                pass
        try:
            base.close()
        except Exception:
            pass
    out.label('%s/%s' % (case['base'], case['changes']), *r.labels)
    out.nontrivial = modified_base
    if modified_base:
        out.label('modifies-base-object')
    return out


def probe_known(r, op):
    """does this transaction contain an undo in the known-finding region (F14)?  (model only)
    Region: undoing the first record the TOP changes layer holds for an object that already
    existed in a lower layer (base, or the changes of a storage pushed on)."""
    for rec in op[2]:
        if rec[0] == 'undo':
            cands = r.undo_candidates()
            if cands:
                target = cands[rec[1] % len(cands)]
                if target.tid not in r.top_tids:
                    continue
                for oid in target.last_wins():
                    revs = r.model.revisions(oid)
                    idx = [i for i, x in enumerate(revs) if x[0] == target.tid]
                    if idx and idx[0] > 0 and not any(x[0] in r.top_tids for x in revs[:idx[0]]):
                        r.undo_hits_known_region = True


def check_current_only(r, out):
    from vlib.model import q_load
    for oid in sorted(r.model.oids()):
        out.evals += 1
        got = q_load(r.storage, oid)
        exp = r.model.x_load(oid)
        if got not in exp:
            out.fail((PROPERTY, 'load-after-pack', 'mismatch'),
                     'after pack through the demo storage load(%r) -> %r ; model accepts %r' % (
                         oid, str(got)[:80], str(exp)[:120]))
            return


LEVEL_TEXT = ('The demo storage is driven by generated programs on top of a generated base history; every query of the '
              'battery must equal the model "base transactions then change transactions", the base must answer as before '
              'and (file base) be byte-identical. Exploration over 6 base/changes combinations and push/pop stackings.')
LEVEL_NOTE = ('Trusted: reference model; generated random stream in place of DemoStorage.random. Known finding F14 region '
              '(undo of the first change to a base object, file changes) is excluded by construction and replayed separately.')
