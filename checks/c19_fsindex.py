"""C19 — the oid index behaves as an ordered map and survives save/load.

Generator: operation sequences over 8-byte keys built from a small alphabet of 6-byte
prefixes x 2-byte suffixes (so absent-prefix queries and bucket-emptying deletions are
common).  Oracle: a Python dict + sorted().  Exhaustive slice: all indexes of <= 4 keys
over a 3x4 key universe x all (min|max)Key queries from a 5x6 grid.
"""
import itertools
import os
import struct

from hypothesis import strategies as st

from vlib.driver import Outcome, newdir

PROPERTY = 'C19'
LEVEL = 'exploration'
TECH = 'model-based PBT (sorted-dict reference) + exhaustive small-domain slice'
RULE = ('cases = generated operation sequences on fsIndex (set/update/del/clear/queries/'
        'save+load) over keys from 9 prefixes x 8 suffixes plus arbitrary 8-byte keys, and an '
        'exhaustive slice (all <=4-key indexes over a 3x4 universe x 60 min/maxKey queries); '
        'non-trivial = a minKey/maxKey query whose 6-byte prefix is absent from a non-empty '
        'index; distinct by (index content, query)')
ASSUMPTIONS = ['BTrees (OOBTree, fsBucket) are trusted C code outside the repository',
               'values restricted to 0 <= v < 2**48 as the statement says']
BUDGET = {'quick': {'examples': 20000, 'workers': 8},
          'thorough': {'examples': 200000, 'workers': 16}}

PREFIXES = [0, 1, 2, 3, 0x7f, 0x100, 0xffff, 2 ** 48 - 2, 2 ** 48 - 1]
SUFFIXES = [0, 1, 2, 3, 0x7f, 0x100, 0xfffe, 0xffff]


def safe_len(idx):
    try:
        return len(idx)
    except Exception as e:      # noqa: B902  (a length Python itself rejects is an answer to compare, not a harness crash)
        return 'len() raises %r' % (e,)


def key_bytes(k):
    return struct.pack('>Q', k)


small_key = st.builds(lambda p, s: (p << 16) | s, st.sampled_from(PREFIXES),
                      st.sampled_from(SUFFIXES))
any_key = st.one_of(small_key, small_key, small_key, st.integers(0, 2 ** 64 - 1))
value = st.one_of(st.integers(0, 2 ** 48 - 1), st.sampled_from([0, 0, 1, 2 ** 48 - 1, 2 ** 32]))
QUERIES = ['get', 'getitem', 'in', 'has_key', 'minKey', 'maxKey', 'minKey0', 'maxKey0',
           'len', 'keys', 'items', 'values', 'iter']


def op_strategy():
    return st.one_of(
        st.tuples(st.just('set'), any_key, value),
        st.tuples(st.just('set'), any_key, value),
        st.tuples(st.just('del'), any_key),
        st.tuples(st.just('update'), st.lists(st.tuples(any_key, value), max_size=4)),
        st.tuples(st.just('update_from_index'), st.lists(st.tuples(any_key, value), max_size=4)),
        st.tuples(st.just('clear')),
        st.tuples(st.just('q'), st.sampled_from(QUERIES), any_key),
        st.tuples(st.just('q'), st.sampled_from(['minKey', 'maxKey']), any_key),
        st.tuples(st.just('saveload'), st.integers(0, 2 ** 63)),
    ).map(list)


def strategy(tier):
    n = 25 if tier == 'quick' else 40
    free = st.lists(op_strategy(), min_size=1, max_size=n)
    # a bucket (6-byte prefix) that becomes empty and is used again, with and without a save/load in between
    pre, suf = st.sampled_from(PREFIXES), st.sampled_from(SUFFIXES)
    again = st.tuples(st.lists(op_strategy(), max_size=6), pre, suf, suf, value, value, st.booleans(), st.lists(op_strategy(), max_size=8)).map(
        lambda t: t[0] + [['set', (t[1] << 16) | t[2], t[4]], ['del', (t[1] << 16) | t[2]]]
        + ([['saveload', 7]] if t[6] else []) + [['set', (t[1] << 16) | t[3], t[5]], ['q', 'get', (t[1] << 16) | t[3]], ['q', 'len', 0]] + t[7])
    return st.fixed_dictionaries({'ops': st.one_of(free, free.map(list), free.map(tuple).map(list), again)})


def extra_cases(tier, seed, w, nw):
    # exhaustive slice
    universe = [(p << 16) | s for p in (1, 3, 5) for s in (1, 3, 5, 7)]
    n = 0
    for size in range(0, 5):
        for sub in itertools.combinations(range(12), size):
            if n % nw == w:
                yield {'exh': [universe[i] for i in sub]}
            n += 1


EXH_QUERIES = [(p << 16) | s for p in (0, 1, 2, 3, 6) for s in (0, 1, 2, 6, 7, 8)]


def model_min(model, k):
    c = [x for x in model if k is None or x >= k]
    if not c:
        return ('exc', 'ValueError')
    return ('ok', min(c))


def model_max(model, k):
    c = [x for x in model if k is None or x <= k]
    if not c:
        return ('exc', 'ValueError')
    return ('ok', max(c))


def call(f, *a):
    try:
        return ('ok', f(*a))
    except (KeyError, ValueError) as e:
        return ('exc', type(e).__name__)


def execute(case):
    from ZODB.fsIndex import fsIndex
    out = Outcome()
    if 'exh' in case:
        idx = fsIndex()
        model = {}
        for k in case['exh']:
            idx[key_bytes(k)] = k & 0xffff
            model[k] = k & 0xffff
        prefixes = {k >> 16 for k in model}
        out.evals = 0
        nt = []
        for q in EXH_QUERIES:
            for name, mf in (('minKey', model_min), ('maxKey', model_max)):
                out.evals += 1
                got = call(getattr(idx, name), key_bytes(q))
                if got[0] == 'ok':
                    got = ('ok', struct.unpack('>Q', got[1])[0])
                exp = mf(model, q)
                if model and (q >> 16) not in prefixes:
                    nt.append((tuple(sorted(model)), name, q))
                if got != exp:
                    out.fail(classify(name, q, model, got, exp),
                             'index=%r %s(%#x) -> %r, sorted-dict model says %r' % (
                                 sorted(map(hex, model)), name, q, got, exp))
        out.nt_keys = nt
        out.label('exhaustive-slice')
        return out

    idx = fsIndex()
    model = {}
    nt = []
    for op in case['ops']:
        kind = op[0]
        if kind == 'set':
            idx[key_bytes(op[1])] = op[2]
            model[op[1]] = op[2]
        elif kind == 'update':
            d = {key_bytes(k): v for k, v in op[1]}
            idx.update(d)
            for k, v in op[1]:
                model[k] = v
        elif kind == 'update_from_index':
            other = fsIndex()
            for k, v in op[1]:
                other[key_bytes(k)] = v
            idx.update(other)
            for k, v in op[1]:
                model[k] = v
        elif kind == 'del':
            def d():
                del idx[key_bytes(op[1])]
            got = call(d)
            exp = ('ok', None) if op[1] in model else ('exc', 'KeyError')
            model.pop(op[1], None)
            if got != exp:
                out.fail((PROPERTY, 'del', 'wrong-result'), 'del %#x -> %r expected %r' % (op[1], got, exp))
            if op[1] >> 16 not in {k >> 16 for k in model}:
                out.label('delete-empties-bucket')
        elif kind == 'clear':
            idx.clear()
            model.clear()
        elif kind == 'saveload':
            d = newdir()
            fn = os.path.join(d, 'x.index')
            idx.save(op[1], fn)
            info = fsIndex.load(fn)
            if info['pos'] != op[1]:
                out.fail((PROPERTY, 'saveload', 'pos'), 'saved pos %r loaded %r' % (op[1], info['pos']))
            got = [(struct.unpack('>Q', k)[0], v) for k, v in info['index'].items()]
            if got != sorted(model.items()):
                out.fail((PROPERTY, 'saveload', 'content'),
                         'loaded %r expected %r' % (got[:10], sorted(model.items())[:10]))
            idx = info['index']
            out.label('saveload')
            if len({k >> 16 for k in model}) > 1:
                out.label('saveload-multi-bucket')
        elif kind == 'q':
            name, k = op[1], op[2]
            kb = key_bytes(k)
            if name == 'get':
                got, exp = call(idx.get, kb), ('ok', model.get(k))
            elif name == 'getitem':
                got = call(idx.__getitem__, kb)
                exp = ('ok', model[k]) if k in model else ('exc', 'KeyError')
            elif name == 'in':
                got, exp = ('ok', kb in idx), ('ok', k in model)
            elif name == 'has_key':
                got, exp = ('ok', bool(idx.has_key(kb))), ('ok', k in model)
            elif name in ('minKey', 'maxKey', 'minKey0', 'maxKey0'):
                arg = None if name.endswith('0') else k
                f = getattr(idx, name[:6])
                got = call(f) if arg is None else call(f, kb)
                if got[0] == 'ok':
                    got = ('ok', struct.unpack('>Q', got[1])[0])
                exp = (model_min if name.startswith('min') else model_max)(model, arg)
                if arg is not None and model and (k >> 16) not in {x >> 16 for x in model}:
                    nt.append((tuple(sorted(model)), name, k))
                    out.label('absent-prefix-query')
                if arg is not None and got != exp:
                    out.fail(classify(name, k, model, got, exp),
                             'index=%r %s(%#x) -> %r, sorted-dict model says %r' % (
                                 sorted(map(hex, model)), name, k, got, exp))
                    continue
            elif name == 'len':
                got, exp = ('ok', safe_len(idx)), ('ok', len(model))
            elif name == 'keys':
                got = ('ok', [struct.unpack('>Q', x)[0] for x in idx.keys()])
                exp = ('ok', sorted(model))
            elif name == 'iter':
                got = ('ok', [struct.unpack('>Q', x)[0] for x in idx])
                exp = ('ok', sorted(model))
            elif name == 'items':
                got = ('ok', [(struct.unpack('>Q', x)[0], v) for x, v in idx.items()])
                exp = ('ok', sorted(model.items()))
            elif name == 'values':
                got = ('ok', list(idx.values()))
                exp = ('ok', [v for _, v in sorted(model.items())])
            if got != exp:
                out.fail((PROPERTY, name, 'wrong-result'),
                         'index=%r %s(%#x) -> %r expected %r' % (
                             sorted(map(hex, model))[:12], name, k, str(got)[:300], str(exp)[:300]))
    # final full comparison
    got = [(struct.unpack('>Q', x)[0], v) for x, v in idx.iteritems()]
    if got != sorted(model.items()) or safe_len(idx) != len(model):
        out.fail((PROPERTY, 'final-scan', 'wrong-result'),
                 'items %r expected %r' % (got[:10], sorted(model.items())[:10]))
    # point queries for every key present (whatever its position, 0 included) and its neighbours
    for k in sorted(model):
        for q in (k, k ^ 1, (k + 0x10000) & (2 ** 64 - 1)):
            kb = key_bytes(q)
            ans = (kb in idx, bool(idx.has_key(kb)), idx.get(kb), idx.get(kb, 'dflt'))
            exp = (q in model, q in model, model.get(q), model.get(q, 'dflt'))
            if ans != exp:
                out.fail((PROPERTY, 'final-point-queries', 'wrong-result'),
                         'key %#x (position %r): (in, has_key, get, get-with-default) -> %r expected %r' % (q, model.get(q), ans, exp))
                break
        if out.failures:
            break
    out.nt_keys = nt
    if len(model) >= 3:
        out.label('index>=3')
    return out


def classify(name, q, model, got, exp):
    prefixes = {k >> 16 for k in model}
    where = 'query-prefix-absent' if (q >> 16) not in prefixes else 'query-prefix-present'
    return (PROPERTY, name[:6], 'wrong-result', where)

LEVEL_TEXT = ('Generated operation sequences and an exhaustively enumerated small key universe are run against '
              'fsIndex and a sorted-dict model; every result and exception class must agree. Exploration: the '
              'property held on everything generated; the absent-prefix min/maxKey region (where the defect '
              'fixed in 2f87c7b lived) is enumerated completely for indexes of <= 4 keys.')
LEVEL_NOTE = 'Trusted: BTrees C extension, the 60-line sorted-dict oracle. Key universe biased to 9x8 prefixes/suffixes plus uniform 64-bit keys.'
