"""C12 — savepoint rollback restores the savepoint state exactly, any number of times."""
import os

from hypothesis import strategies as st

from vlib import clock, locks, objprog
from vlib.driver import Outcome, newdir
from checks.c11_objects import storage_factory

PROPERTY = 'C12'
LEVEL = 'exploration'
TECH = 'model-based stateful PBT: generated savepoint/rollback programs vs snapshot model (states, ownership, commit record sets)'
RULE = ('cases = generated single-connection programs mixing modifications, object creation (implicit and add), '
        'savepoints (also before the connection joined), rollbacks to any still-valid savepoint (repeated, after later '
        'savepoints), commits and aborts, with a second connection observing; oracle: after each rollback every object reads '
        'as in the model snapshot and objects that got an oid after the savepoint are disowned; after commit the exact record '
        'set is stored and a fresh connection reads the final states with every reference resolving; after abort nothing is '
        'stored; the observer never sees uncommitted data; evaluations = steps; non-trivial = >= 2 rollbacks of which one '
        'targets a savepoint already rolled back to or preceding a later savepoint, with an object created in between; '
        'distinct by program hash; later additions: blob programs (25%), interrupted commits (20%), phased savepoints taken after a rollback over objects of equal record size, a second connection saving blobs of its own')
ASSUMPTIONS = ['objects disowned by a rollback/abort after having been stored in a savepoint are not used again by the program '
               '(the statement promises un-adding, not re-addability; re-adding after abort is C11)',
               'blob writes inside savepoints are exercised in C13']
BUDGET = {'quick': {'examples': 12000, 'workers': 8},
          'thorough': {'examples': 100000, 'workers': 16}}


def blob_strategy(n):
    """blob writes inside savepoints (the statement's 'blob writes'): programs of C13's blob world,
    restricted to one transaction's worth of writes, savepoints and rollbacks, then commit or abort"""
    from checks.c13_blobs import DATA
    i = st.integers(0, 2)
    d = st.integers(0, len(DATA) - 1)
    op = st.one_of(
        st.tuples(st.just('write'), i, st.sampled_from(['w', 'w', 'a', 'r+']), d),
        st.tuples(st.just('write'), i, st.sampled_from(['w', 'a']), d),
        st.tuples(st.just('create'), i, d),
        st.tuples(st.just('consume'), i, d),
        st.tuples(st.just('setnode'), st.integers(1, 9)),
        st.tuples(st.just('savepoint')), st.tuples(st.just('savepoint')),
        st.tuples(st.just('rollback'), st.integers(0, 3)), st.tuples(st.just('rollback'), st.integers(0, 1)),
        st.tuples(st.just('read'), i),
        st.tuples(st.just('minimize')),
        st.tuples(st.just('other'), d, st.integers(0, 2)),
        st.tuples(st.just('commit')), st.tuples(st.just('abort')),
    ).map(list)
    return st.fixed_dictionaries({'blob_kind': st.sampled_from(['fs', 'fs', 'bmap', 'bmap', 'bfs']),
                                  'first': st.sampled_from(['node', 'blob']),
                                  'blob_ops': st.lists(op, min_size=3, max_size=n)})


KINDS_PLAIN = ['N', 'N', 'M', 'L']


def strategy(tier):
    n = 20 if tier == 'quick' else 40
    plain = st.fixed_dictionaries({'kind': st.sampled_from(['fs', 'mapping', 'demo']),
                                   'ops': st.lists(objprog.op_strategy({'savepoint'}), min_size=3, max_size=n)})
    free_op = objprog.op_strategy({'savepoint'})

    @st.composite
    def phased(draw):
        """savepoints taken after a rollback: change A, savepoint, change B, savepoint, roll back to one of them, change
        C (a different object with a record of the same size, or the same one), savepoint, change again, roll back -
        "rollbacks after further savepoints" with the temporary store back at an earlier position in between"""
        kind = draw(st.sampled_from(KINDS_PLAIN))
        prog = [['new', kind, 0, sl, 'r'] for sl in objprog.SLOTS] + [['commit']]
        # (the world starts with one object of each kind; the three new ones - same kind, same shape, records of the same
        # size - are live objects 4..6)
        idx = st.sampled_from([4, 5, 6, 4, 5, 6, 1, 2])
        val = st.integers(1, 9)
        slot = st.sampled_from(objprog.SLOTS)
        prog += draw(st.lists(free_op, max_size=2))
        for _ in range(draw(st.integers(1, 2))):
            prog += [['set', draw(idx), draw(slot), draw(val)], ['savepoint']]
        prog += [['set', draw(idx), draw(slot), draw(val)], ['savepoint'], ['rollback', draw(st.integers(0, 2))]]
        for _ in range(draw(st.integers(1, 2))):
            prog += [['set', draw(idx), draw(slot), draw(val)], ['savepoint']]
        prog += [['set', draw(idx), draw(slot), draw(val)], ['rollback', draw(st.sampled_from([0, 1, 2, 3, 3, 4, 5]))]]
        prog += [['read', i] for i in range(7)]
        if draw(st.booleans()):
            prog += [['rollback', draw(st.integers(0, 5))]] + [['read', i] for i in range(7)]
        prog += draw(st.lists(free_op, max_size=3)) + [['commit']]
        return prog
    phased_case = st.fixed_dictionaries({'kind': st.sampled_from(['fs', 'mapping', 'demo']), 'ops': phased()})
    # "committing after savepoints stores exactly the final states; aborting discards everything": commits of
    # transactions with savepoints that are interrupted (conflict on a saved object, failing participant,
    # unpicklable object) and then the connection is used again - the programs of C05's connection cases
    from checks import c05_unfinished
    interrupted = c05_unfinished.conn_strategy(tier).map(lambda c: {'kind': c['kind'], 'ops': c['ops']})
    return st.integers(0, 99).flatmap(lambda r: blob_strategy(n) if r < 25 else interrupted if r < 45 else phased_case if r < 60 else plain)


def execute_blobs(case):
    from checks import c13_blobs
    out = Outcome()
    out.evals = 0
    clock.install()
    locks.install()
    clock.reset()
    d = newdir()
    w = c13_blobs.BlobWorld(case['blob_kind'], d, out, prop=PROPERTY)
    nroll = 0
    try:
        for op in (['create', 0, 2], ['create', 1, 3], ['commit']):
            w.step(op)
        if case['first'] == 'blob':
            # the blob is the first object the transaction touches (its record opens the savepoint store)
            w.step(['write', 0, 'a', 1])
            w.step(['savepoint'])
        for op in case['blob_ops']:
            w.step(op)
            clock.CLOCK.advance(0.25)
            out.evals += 1
            if out.failures:
                break
            if op[0] == 'rollback' and 'rollback' in w.labels:
                nroll += 1
    finally:
        w.close()
    out.label('blobs-in-savepoints', *w.labels)
    out.nontrivial = nroll >= 2
    return out


def execute(case):
    if 'blob_ops' in case:
        return execute_blobs(case)
    out = Outcome()
    out.evals = 0
    clock.install()
    locks.install()
    clock.reset()
    d = newdir()
    w = objprog.World(storage_factory(case['kind'], d), out, PROPERTY, lenient_disowned=True)
    nroll = 0
    try:
        # a small committed population to work on
        for op in (['new', 'N', 0, 's0', 'r'], ['new', 'M', 0, 's0', 'r'], ['new', 'L', 1, 's1', 'rl'], ['commit']):
            w.step(op)
        for op in case['ops']:
            w.step(op)
            clock.CLOCK.advance(0.25)
            out.evals += 1
            if out.failures:
                break
            if op[0] == 'rollback' and 'rollback' in w.labels:
                nroll += 1
            # uncommitted data are never visible to another connection
            if op[0] in ('savepoint', 'rollback') and not w.check_fresh('observer during the transaction (after %s)' % op[0]):
                break
    finally:
        w.close()
    out.label(case['kind'], *w.labels)
    out.nontrivial = nroll >= 2 and 'rollback-nontrivial' in w.labels
    return out


LEVEL_TEXT = ('Generated savepoint programs run against a model that snapshots all object states and the ownership set at each '
              'savepoint; every rollback, commit and abort is checked against it, including what a concurrent fresh connection sees.')
LEVEL_NOTE = 'Trusted: vlib/objprog.OModel. Savepoint validity follows the transaction package (a rollback invalidates later savepoints).'
