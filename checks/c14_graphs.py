"""C14 — object graphs round-trip and reference extraction is exact."""
import sys
import types

from hypothesis import strategies as st

from vlib import clock, locks
from vlib.driver import Outcome

PROPERTY = 'C14'
LEVEL = 'exploration'
TECH = 'round-trip PBT over generated object graphs; referencesf/get_refs vs the references the generator placed'
RULE = ('cases = generated graphs of 1-12 persistent nodes (Node, PersistentMapping, PersistentList, class with '
        '__getnewargs__, class whose module is removed before loading) with references placed directly, in tuples, lists, '
        'dicts and nested containers, shared and cyclic, weak references, cross-database references (two databases), explicit '
        'add of unreachable nodes, oids supplied from generated 8-byte patterns (ASCII-only ones included); oracle: (1) a '
        'second connection loads an isomorphic graph, one object per oid, (2) the stored records are exactly the nodes '
        'reachable from the root or explicitly added, (3) no record contains another node\'s unique marker, (4) '
        'referencesf(record) and get_refs(record) equal the strong same-database references the generator placed, without '
        'importing classes, (5) instances of missing classes load as broken objects with the stored state, (6) exportFile of a '
        'generated node whose sub-graph has ordinary references only, importFile into the same database: the copy is '
        'isomorphic, consists of exactly one new record per exported object, no dangling reference, (7) the same records '
        'with every all-below-0x80 oid re-encoded as a Python 2 str (as ZODB 3 wrote them): referencesf/get_refs return the '
        'same ids as bytes, and the graph loads identically from a storage holding these records; evaluations = '
        'graphs; non-trivial = >= 3 nodes with sharing or a cycle and >= 1 reference inside a nested plain container; '
        'distinct by case hash; later additions: three-database diamond, failed first attempt and retry with the same objects, plain objects of missing classes (empty and zero states included) rewritten as placeholders and loaded with the class back, weak cross-database references, connections reused after resetCaches()')
ASSUMPTIONS = ['a weak reference to a new object causes it to be stored (documented in ObjectWriter.persistent_id)',
               'cross-database targets are committed in their own database before they are referenced']
BUDGET = {'quick': {'examples': 12000, 'workers': 8},
          'thorough': {'examples': 80000, 'workers': 16}}

KINDS = ['N', 'N', 'M', 'L', 'A', 'X', 'XA', 'X2']
WRAPS = ['direct', 'tuple', 'list', 'dict', 'nested']
OID_PATTERNS = [b'abcdefgh', b'AAAAAAAA', b'\x7f' * 8, b'\x80' * 8, b'\xfe' + b'\xff' * 7, b'\x00\x00\x00\x00\x00\x00\x01\x00',
                b'12345678', b'\x00' * 7 + b'\x01', b' ' * 8, b'\n' * 8, b'q\x00q\x00q\x00q\x00', b'\x00abcdefg']


# what __getstate__ of the plain missing-class objects returns (empty and zero states included)
PLAIN_STATES = [{'a': 1}, [], 0, '', {}, False, [1, 2], 'abc', (), None, {'k': [0]}, 0.0]


def strategy(tier):
    nmax = 8 if tier == 'quick' else 12

    @st.composite
    def graph(draw):
        n = draw(st.integers(1, nmax))
        nodes = []
        for i in range(n):
            kind = draw(st.sampled_from(KINDS))
            edges = draw(st.lists(st.tuples(st.integers(0, n - 1), st.sampled_from(WRAPS),
                                            st.sampled_from(['s', 's', 's', 'w', 'x', 'wx'])), max_size=3).map(lambda l: [list(e) for e in l]))
            nodes.append({'kind': kind, 'edges': edges,
                          'root': draw(st.sampled_from([True, False, False])),
                          'add': draw(st.sampled_from([False, False, False, True])),
                          # a plain (non-persistent) object of a missing class inside the node's state, with this state
                          'plain': draw(st.sampled_from([None, None] + list(range(len(PLAIN_STATES))))),
                          'plain_na': draw(st.booleans())})
        nodes[0]['root'] = True
        oids = draw(st.lists(st.one_of(st.sampled_from(OID_PATTERNS).map(lambda b: list(b)),
                                       st.lists(st.integers(0, 255), min_size=8, max_size=8).filter(lambda l: l[0] < 255)),
                             max_size=n, unique_by=lambda l: tuple(l)))
        return {'nodes': nodes, 'oids': oids, 'export': draw(st.integers(0, 11)),
                'poison': draw(st.sampled_from([None, None, None, 0, 1, 2, 5])), 'xkinds': draw(st.lists(st.sampled_from(['N', 'A']), min_size=2, max_size=2))}
    return graph()


MISSING_MOD = 'verif_missing_mod'
MISSING_MOD2 = 'verif_missing_mod2'


def install_missing_module():
    """classes whose modules are removed before loading: Gone, GoneNA (with constructor arguments) in one module, and
    another class that is also called Gone in a second module; returns a namespace"""
    import persistent
    mod = types.ModuleType(MISSING_MOD)
    mod2 = types.ModuleType(MISSING_MOD2)

    class Gone(persistent.Persistent):
        pass
    Gone.__module__ = MISSING_MOD
    mod.Gone = Gone

    class GoneNA(persistent.Persistent):
        def __new__(cls, tag):
            return persistent.Persistent.__new__(cls)

        def __init__(self, tag):
            self.tag = tag

        def __getnewargs__(self):
            return (self.tag,)
    GoneNA.__module__ = MISSING_MOD
    GoneNA.__qualname__ = 'GoneNA'
    mod.GoneNA = GoneNA
    Gone2 = type('Gone', (persistent.Persistent,), {})
    Gone2.__module__ = MISSING_MOD2
    mod2.Gone = Gone2

    class GonePlain:
        """not persistent: lives inside the state of a persistent object"""
        state = None

        def __getstate__(self):
            return self.state

        def __setstate__(self, state):
            self.state = state
    GonePlain.__module__ = MISSING_MOD
    GonePlain.__qualname__ = 'GonePlain'
    mod.GonePlain = GonePlain

    class GonePlainNA(GonePlain):
        def __new__(cls, tag):
            o = object.__new__(cls)
            o.tag = tag
            return o

        def __getnewargs__(self):
            return (self.tag,)
    GonePlainNA.__module__ = MISSING_MOD
    GonePlainNA.__qualname__ = 'GonePlainNA'
    mod.GonePlainNA = GonePlainNA
    sys.modules[MISSING_MOD] = mod
    sys.modules[MISSING_MOD2] = mod2
    ns = types.SimpleNamespace(Gone=Gone, GoneNA=GoneNA, Gone2=Gone2, GonePlain=GonePlain, GonePlainNA=GonePlainNA, mod=mod, mod2=mod2)
    return ns


def remove_missing_modules():
    sys.modules.pop(MISSING_MOD, None)
    sys.modules.pop(MISSING_MOD2, None)


def restore_missing_modules(ns):
    sys.modules[MISSING_MOD] = ns.mod
    sys.modules[MISSING_MOD2] = ns.mod2


def make_node(kind, mark, Gone):
    from persistent.list import PersistentList
    from persistent.mapping import PersistentMapping
    from vlib.vclasses import Node, NodeNA
    payload = {'mark': mark, 'items': []}
    if kind == 'N':
        o = Node()
        o.payload = payload
    elif kind == 'A':
        o = NodeNA('na')
        o.payload = payload
    elif kind == 'X':
        o = Gone.Gone()
        o.payload = payload
    elif kind == 'XA':
        o = Gone.GoneNA('na')
        o.payload = payload
    elif kind == 'X2':
        o = Gone.Gone2()
        o.payload = payload
    elif kind == 'M':
        o = PersistentMapping()
        o['payload'] = payload
    else:
        o = PersistentList([payload])
    return o


def payload_of(o):
    from persistent.list import PersistentList
    from persistent.mapping import PersistentMapping
    if isinstance(o, PersistentMapping):
        return o['payload']
    if isinstance(o, PersistentList):
        return o[0]
    if hasattr(o, '__Broken_state__'):
        return o.__Broken_state__['payload']
    return o.payload


def wrap(how, v):
    if how == 'direct':
        return v
    if how == 'tuple':
        return (v,)
    if how == 'list':
        return [v]
    if how == 'dict':
        return {'k': v}
    return [{'k': (v, 1)}]


def canon(v, visit):
    """canonical form of a plain value; persistent objects become ('ref', mark)"""
    import persistent
    from persistent.wref import WeakRef
    if isinstance(v, WeakRef):
        t = v()
        return ('weak', visit(t) if t is not None else None)
    if isinstance(v, persistent.Persistent):
        return ('ref', visit(v))
    if isinstance(v, dict):
        return ('dict', tuple(sorted((k, canon(x, visit)) for k, x in v.items())))
    if isinstance(v, (list, tuple)):
        return (type(v).__name__, tuple(canon(x, visit) for x in v))
    return v


class OidFeed:
    """new_oid source: generated 8-byte patterns first, then the storage's own"""

    def __init__(self, storage, oids):
        self.orig = storage.new_oid
        self.oids = [bytes(o) for o in oids if bytes(o) != b'\0' * 8]
        self.used = set()

    def __call__(self):
        while self.oids:
            o = self.oids.pop(0)
            if o not in self.used:
                self.used.add(o)
                return o
        while True:
            o = self.orig()
            if o not in self.used:
                self.used.add(o)
                return o


def execute(case):
    import transaction
    import ZODB
    from persistent.wref import WeakRef
    from ZODB.MappingStorage import MappingStorage
    from ZODB.serialize import get_refs, referencesf
    out = Outcome()
    clock.install()
    locks.install()
    clock.reset()
    Gone = install_missing_module()
    s1, s2 = MappingStorage('one'), MappingStorage('two')
    databases = {}
    db1 = ZODB.DB(s1, database_name='one', databases=databases)
    db2 = ZODB.DB(s2, database_name='two', databases=databases)
    db3 = ZODB.DB(MappingStorage('three'), database_name='three', databases=databases)
    tm = transaction.TransactionManager()
    conn = db1.open(tm)
    conn3 = conn.get_connection('three')
    conn2 = conn.get_connection('two')
    try:
        # cross-database targets, committed beforehand: one in database 'two', one in 'three', and the one in
        # 'two' also refers to the one in 'three' (a diamond one -> two -> three, one -> three)
        xt = []
        for i, k in enumerate(case['xkinds']):
            o = make_node(k, 'XMARK%d' % i, Gone)
            (conn2 if i == 0 else conn3).root()['x%d' % i] = o
            xt.append(o)
        tm.commit()
        payload_of(xt[0])['items'].append(xt[1])
        xt[0]._p_changed = True
        tm.commit()
        feed = OidFeed(s1, case['oids'])
        s1.new_oid = feed
        conn.new_oid = feed
        spec = case['nodes']
        n = len(spec)
        objs = [make_node(sp['kind'], 'MARK%03d' % i, Gone) for i, sp in enumerate(spec)]
        for i, sp in enumerate(spec):
            if sp.get('plain') is not None:
                ph = Gone.GonePlainNA('pa') if sp.get('plain_na') else Gone.GonePlain()
                if PLAIN_STATES[sp['plain']] is not None:
                    ph.state = PLAIN_STATES[sp['plain']]
                payload_of(objs[i])['plain'] = ph
        strong = {i: [] for i in range(n)}      # expected ordinary references per node (target indices)
        storing = {i: [] for i in range(n)}     # edges that cause a new target to be stored (strong + weak)
        features = set()
        for i, sp in enumerate(spec):
            items = payload_of(objs[i])['items']
            for tgt, how, typ in sp['edges']:
                if typ == 'x':
                    items.append(wrap(how, xt[tgt % len(xt)]))
                    features.add('cross-db')
                elif typ == 'wx':
                    # weak AND cross-database
                    items.append(wrap(how, WeakRef(xt[tgt % len(xt)])))
                    features.add('weak-cross-db')
                elif typ == 'w':
                    items.append(wrap(how, WeakRef(objs[tgt])))
                    storing[i].append(tgt)
                    features.add('weak')
                else:
                    items.append(wrap(how, objs[tgt]))
                    strong[i].append(tgt)
                    storing[i].append(tgt)
                if how == 'nested':
                    features.add('nested')
                if tgt == i:
                    features.add('self-cycle')
        def attach():
            root = conn.root()
            for i, sp in enumerate(spec):
                if sp['root']:
                    root['n%d' % i] = objs[i]
                if sp['add']:
                    conn.add(objs[i])
                    features.add('explicit-add')
        attach()
        if case.get('poison') is not None and any(t == 'w' for sp in spec for (_, _, t) in sp['edges']):
            # (a persistent.wref.WeakRef made for a then-new target keeps the oid it was given during the failed
            # attempt - state of the `persistent` package that ZODB's disowning cannot reach: DESIGN 10.2 obs. 9)
            out.excluded += 1
        elif case.get('poison') is not None:
            # the first attempt to store the graph fails while one of the new objects is pickled; after the
            # abort the same in-memory objects are attached and stored again
            victim = payload_of(objs[case['poison'] % n])
            victim['poison'] = lambda: None
            try:
                tm.commit()
            except Exception as e:          # noqa: B902
                if 'pickle' not in (type(e).__name__ + str(e)).lower():
                    raise
                features.add('first-attempt-failed')
            tm.abort()
            del victim['poison']
            attach()
        tm.commit()
        # ---- expected stored set
        expected = set()
        todo = [i for i, sp in enumerate(spec) if sp['root'] or sp['add']]
        while todo:
            i = todo.pop()
            if i in expected:
                continue
            expected.add(i)
            todo.extend(storing[i])
        indeg = {}
        for i in expected:
            for t in strong[i]:
                indeg[t] = indeg.get(t, 0) + 1
        if any(v > 1 for v in indeg.values()):
            features.add('sharing')
        if len(expected) >= 3 and ('sharing' in features or has_cycle(strong, expected)):
            features.add('shared-or-cyclic')
        # (2) record set
        stored = {}
        for t in s1.iterator():
            for r in t:
                stored[r.oid] = r.data
        oid_of = {}
        for i in range(n):
            o = objs[i]
            if i in expected:
                if o._p_oid is None or o._p_oid not in stored:
                    out.fail((PROPERTY, 'stored-set', 'reachable-node-not-stored'),
                             'node %d (%s) is reachable/added but has no record' % (i, spec[i]['kind']))
                    return finish(out, features)
                oid_of[i] = o._p_oid
            elif o._p_oid is not None and o._p_oid in stored:
                out.fail((PROPERTY, 'stored-set', 'unreachable-node-stored'),
                         'node %d is neither reachable nor added but was stored' % i)
                return finish(out, features)
        extra = set(stored) - set(oid_of.values()) - {b'\0' * 8}
        if extra:
            out.fail((PROPERTY, 'stored-set', 'unknown-records'), 'records for unknown oids %r' % sorted(extra)[:3])
            return finish(out, features)
        if any(all(32 <= c < 127 for c in o) for o in oid_of.values()):
            features.add('ascii-oid')
        # (3) no embedded state, (4) reference extraction
        remove_missing_modules()       # extraction must not need the classes
        for i, oid in oid_of.items():
            data = stored[oid]
            for j in oid_of:
                if j != i and (b'MARK%03d' % j) in data:
                    out.fail((PROPERTY, 'record', 'embeds-other-object'),
                             'the record of node %d contains the state marker of node %d' % (i, j))
                    return finish(out, features)
            exp = sorted(oid_of[t] for t in strong[i])
            got = sorted(referencesf(data))
            if got != exp:
                out.fail((PROPERTY, 'referencesf', 'wrong-oids'),
                         'node %d (%s, edges %r): referencesf -> %r ; ordinary references placed: %r' % (
                             i, spec[i]['kind'], spec[i]['edges'], got, exp))
                return finish(out, features)
            got2 = sorted(r[0] for r in get_refs(data))
            if got2 != exp:
                out.fail((PROPERTY, 'get_refs', 'wrong-oids'),
                         'node %d: get_refs -> %r ; ordinary references placed: %r' % (i, got2, exp))
                return finish(out, features)
        # (1)+(5) load in another connection (missing module stays missing)
        tm_b = transaction.TransactionManager()
        cb = db1.open(tm_b)
        if case.get('poison') in (1, 5) or case.get('export', 0) % 4 == 3:
            # the connection comes back from the pool after every connection cache has been declared stale
            # (ZODB.Connection.resetCaches(), what a class reload asks for): it starts over with a new cache - one object
            # per id all the same, however the object is reached
            import ZODB.Connection
            cb.root()
            cb.close()
            ZODB.Connection.resetCaches()
            cb = db1.open(tm_b)
            features.add('connection-caches-reset')
        try:
            seen = {}

            by_id = {}

            def visit(o):
                oid = o._p_oid
                if o._p_jar is cb and cb.get(oid) is not o:
                    raise AssertionError('two objects for oid %r in one connection' % oid)
                key = (o._p_jar.db().database_name, oid)
                if by_id.setdefault(key, o) is not o:
                    raise AssertionError('two in-memory objects for oid %r of database %r reached from one connection' % (oid, key[0]))
                p = payload_of(o)
                mark = p['mark']
                if mark not in seen:
                    seen[mark] = None
                    seen[mark] = canon(p['items'], visit)
                return mark

            def visit_orig(o):
                return payload_of(o)['mark']
            for i in sorted(expected):
                o = cb.get(oid_of[i])
                mark = visit(o)
                if mark != 'MARK%03d' % i:
                    out.fail((PROPERTY, 'round-trip', 'wrong-object'), 'oid of node %d loads as %s' % (i, mark))
                    return finish(out, features)
                if spec[i]['kind'] in ('X', 'XA', 'X2'):
                    features.add({'X': 'missing-class', 'XA': 'missing-class-with-newargs', 'X2': 'missing-class-same-name'}[spec[i]['kind']])
                    if 'Broken' not in type(o).__mro__[1].__name__ and not hasattr(o, '__Broken_state__'):
                        out.fail((PROPERTY, 'round-trip', 'missing-class-not-broken'), 'node %d: %r' % (i, type(o)))
                        return finish(out, features)
                    # the placeholder stands for THAT class (module and name), and keeps the constructor arguments
                    want = {'X': (MISSING_MOD, 'Gone'), 'XA': (MISSING_MOD, 'GoneNA'), 'X2': (MISSING_MOD2, 'Gone')}[spec[i]['kind']]
                    if (type(o).__module__, type(o).__name__) != want:
                        out.fail((PROPERTY, 'round-trip', 'placeholder-of-another-class'),
                                 'node %d of missing class %s.%s loads as placeholder for %s.%s' % (
                                     (i,) + want + (type(o).__module__, type(o).__name__)))
                        return finish(out, features)
                    if spec[i]['kind'] == 'XA' and getattr(o, '__Broken_newargs__', None) != ('na',):
                        out.fail((PROPERTY, 'round-trip', 'placeholder-lost-newargs'),
                                 'node %d: placeholder has constructor arguments %r' % (i, getattr(o, '__Broken_newargs__', None)))
                        return finish(out, features)
            restore_missing_modules(Gone)
            for i in sorted(expected):
                exp = canon(payload_of(objs[i])['items'], visit_orig)
                if seen['MARK%03d' % i] != exp:
                    out.fail((PROPERTY, 'round-trip', 'graph-differs'),
                             'node %d loads as %r ; stored graph has %r' % (i, seen['MARK%03d' % i], exp))
                    return finish(out, features)
        except AssertionError as e:
            out.fail((PROPERTY, 'round-trip', 'identity'), str(e))
        finally:
            tm_b.abort()
            cb.close()
        if not out.failures:
            legacy_records(s1, s2, spec, objs, strong, expected, oid_of, xt, out, features, db3.storage)
        if not out.failures:
            export_import(case, conn, tm, db1, spec, objs, strong, expected, oid_of, out, features)
        if not out.failures:
            through_placeholders(db1, Gone, spec, expected, oid_of, out, features)
    finally:
        remove_missing_modules()
        try:
            tm.abort()
            db1.close()
            db2.close()
            db3.close()
        except Exception:
            pass
    return finish(out, features)


def through_placeholders(db1, Gone, spec, expected, oid_of, out, features):
    """(5') "placeholders that keep their state", through a rewrite: while the classes are missing, the persistent
    objects holding plain objects of a missing class are loaded, changed and committed (the placeholders are pickled
    again); once the classes are back a fresh load yields objects of the real class with the original state"""
    import transaction
    from ZODB.broken import Broken
    todo = [i for i in sorted(expected) if spec[i].get('plain') is not None and spec[i]['kind'] in ('N', 'A', 'M', 'L')]
    if not todo:
        return
    remove_missing_modules()
    tm_c = transaction.TransactionManager()
    cc = db1.open(tm_c)
    try:
        cc.cacheMinimize()
        for i in todo:
            o = cc.get(oid_of[i])
            p = payload_of(o)
            if not isinstance(p['plain'], Broken):
                out.fail((PROPERTY, 'round-trip', 'missing-class-not-broken', 'plain-object'),
                         'node %d: the plain object of a missing class loads as %r' % (i, type(p['plain'])))
                return
            p['touched'] = True
            o._p_changed = True
        tm_c.commit()
    finally:
        tm_c.abort()
        cc.close()
    restore_missing_modules(Gone)
    tm_d = transaction.TransactionManager()
    cd = db1.open(tm_d)
    try:
        cd.cacheMinimize()
        for i in todo:
            ph = payload_of(cd.get(oid_of[i]))['plain']
            want_cls = Gone.GonePlainNA if spec[i].get('plain_na') else Gone.GonePlain
            want = PLAIN_STATES[spec[i]['plain']]
            if type(ph) is not want_cls:
                out.fail((PROPERTY, 'round-trip', 'through-placeholder', 'wrong-class'),
                         'node %d: after a rewrite while its class was missing the plain object loads as %r' % (i, type(ph)))
                return
            got = getattr(ph, 'state', 'NO-STATE-ATTRIBUTE')
            if (type(got), got) != (type(want), want) or (spec[i].get('plain_na') and getattr(ph, 'tag', None) != 'pa'):
                out.fail((PROPERTY, 'round-trip', 'through-placeholder', 'state-lost'),
                         'node %d: a plain object of a missing class with state %r (constructor arguments %r) was rewritten as '
                         'placeholder while the class was missing; with the class back it loads with state %r, arguments %r' % (
                             i, want, ('pa',) if spec[i].get('plain_na') else (), got, getattr(ph, 'tag', None)))
                return
        features.add('plain-missing-class-object-rewritten-as-placeholder')
    finally:
        tm_d.abort()
        cd.close()


def legacy_records(s1, s2, spec, objs, strong, expected, oid_of, xt, out, features, s_three=None):
    """(7) the same records as a Python-2-era ZODB wrote them: an oid whose bytes are all < 0x80 is a *str* in
    the pickle (SHORT_BINSTRING, same layout as SHORT_BINBYTES).  Reference extraction returns the same ids as
    bytes, and the graph loads identically from a storage holding these records."""
    import transaction
    import ZODB
    from ZODB.Connection import TransactionMetaData
    from ZODB.MappingStorage import MappingStorage
    from ZODB.serialize import get_refs, referencesf
    known = set(oid_of.values()) | {o._p_oid for o in xt} | {b'\0' * 8}
    ascii_oids = [o for o in known if all(c < 0x80 for c in o)]

    def transcode(data):
        for o in ascii_oids:
            data = data.replace(b'C\x08' + o, b'U\x08' + o)
        return data
    current = {}
    for t in s1.iterator():
        for r in t:
            current[r.oid] = r.data
    legacy = {oid: transcode(d) for oid, d in current.items()}
    if all(legacy[o] == current[o] for o in current):
        return
    features.add('legacy-str-oids')
    for i, oid in sorted(oid_of.items()):
        if legacy[oid] == current[oid]:
            continue
        exp = sorted(oid_of[t] for t in strong[i])
        got = referencesf(legacy[oid])
        if sorted(got, key=repr) != sorted(exp, key=repr) or not all(isinstance(o, bytes) for o in got):
            out.fail((PROPERTY, 'referencesf', 'legacy-str-oid'),
                     'node %d (%s, edges %r) with its ids pickled as Python 2 str: referencesf -> %r ; ordinary references placed: %r' % (
                         i, spec[i]['kind'], spec[i]['edges'], got, exp))
            return
        got2 = [r[0] for r in get_refs(legacy[oid])]
        if sorted(got2, key=repr) != sorted(exp, key=repr) or not all(isinstance(o, bytes) for o in got2):
            out.fail((PROPERTY, 'get_refs', 'legacy-str-oid'),
                     'node %d with its ids pickled as Python 2 str: get_refs -> %r ; ordinary references placed: %r' % (i, got2, exp))
            return
    # the graph loads identically from these records
    s3 = MappingStorage('legacy')
    t = TransactionMetaData()
    s3.tpc_begin(t)
    for oid, d in sorted(legacy.items()):
        s3.store(oid, b'\0' * 8, d, '', t)
    s3.tpc_vote(t)
    s3.tpc_finish(t)
    dbs = {}
    db3 = ZODB.DB(s3, database_name='one', databases=dbs)
    ZODB.DB(s2, database_name='two', databases=dbs)
    if s_three is not None:
        ZODB.DB(s_three, database_name='three', databases=dbs)
    tm3 = transaction.TransactionManager()
    c3 = db3.open(tm3)
    try:
        seen = {}

        def visit(o):
            oid = o._p_oid
            if o._p_jar is c3 and c3.get(oid) is not o:
                raise AssertionError('two objects for oid %r in one connection' % oid)
            p = payload_of(o)
            mark = p['mark']
            if mark not in seen:
                seen[mark] = None
                seen[mark] = canon(p['items'], visit)
            return mark

        def visit_orig(o):
            return payload_of(o)['mark']
        try:
            for i in sorted(expected):
                mark = visit(c3.get(oid_of[i]))
                if mark != 'MARK%03d' % i:
                    out.fail((PROPERTY, 'legacy-round-trip', 'wrong-object'), 'oid of node %d loads as %s' % (i, mark))
                    return
            for i in sorted(expected):
                exp = canon(payload_of(objs[i])['items'], visit_orig)
                if seen['MARK%03d' % i] != exp:
                    out.fail((PROPERTY, 'legacy-round-trip', 'graph-differs'),
                             'node %d (ids pickled as Python 2 str) loads as %r ; stored graph has %r' % (i, seen['MARK%03d' % i], exp))
                    return
        except AssertionError as e:
            out.fail((PROPERTY, 'legacy-round-trip', 'identity'), str(e))
    finally:
        tm3.abort()
        c3.close()


def export_import(case, conn, tm, db1, spec, objs, strong, expected, oid_of, out, features):
    """(6) export of a subgraph and import as a copy: the copy is isomorphic, made of new objects only,
    one record per exported object.  Domain: subgraphs of ordinary references (ExportImport documents that
    it does not handle weak references; its reference rewriting has no cross-database form)."""
    import io
    import transaction
    from ZODB.POSException import POSKeyError
    clean = {i for i in expected if all(t == 's' for (_, _, t) in spec[i]['edges'])}

    def closure(i):
        c, todo = set(), [i]
        while todo:
            u = todo.pop()
            if u not in c:
                c.add(u)
                todo.extend(strong[u])
        return c
    starts = [i for i in sorted(expected) if closure(i) <= clean]
    if not starts:
        features.add('export-none-eligible')
        return
    back = [i for i in starts if any(i in strong[u] for u in closure(i))]
    if back and case.get('export', 0) % 2:
        starts = back          # a start that its own sub-graph refers back to
    start = starts[case.get('export', 0) // 2 % len(starts)]
    sub = closure(start)
    f = io.BytesIO()
    conn.exportFile(oid_of[start], f)
    f.seek(0)
    before = set()
    for t in db1.storage.iterator():
        for r in t:
            before.add(r.oid)
    imp = conn.importFile(f)
    conn.root()['imported'] = imp
    tm.commit()
    new = set()
    for t in db1.storage.iterator():
        for r in t:
            if r.oid not in before:
                new.add(r.oid)
    features.add('export-import')
    if any(start in strong[u] for u in sub):
        features.add('export-reference-back-to-start')
    if len(new) != len(sub):
        out.fail((PROPERTY, 'export-import', 'record-count'),
                 'export of node %d covers %d objects, the import stored %d new records' % (start, len(sub), len(new)))
        return
    tm_c = transaction.TransactionManager()
    cc = db1.open(tm_c)
    try:
        seen, oids = {}, {}

        def visit(o):
            oid = o._p_oid
            if cc.get(oid) is not o:
                raise AssertionError('two objects for oid %r in one connection' % oid)
            p = payload_of(o)
            mark = p['mark']
            if mark not in seen:
                seen[mark] = None
                oids[mark] = oid
                seen[mark] = canon(p['items'], visit)
            elif oids[mark] != oid:
                raise AssertionError('the copy of node %s exists twice (oids %r and %r)' % (mark, oids[mark], oid))
            return mark

        def visit_orig(o):
            return payload_of(o)['mark']
        try:
            got_start = visit(cc.root()['imported'])
        except POSKeyError as e:
            out.fail((PROPERTY, 'export-import', 'dangling-reference'),
                     'walking the imported copy of node %d raised POSKeyError(%s)' % (start, e))
            return
        except AssertionError as e:
            out.fail((PROPERTY, 'export-import', 'identity'), str(e))
            return
        if got_start != 'MARK%03d' % start or set(seen) != {'MARK%03d' % i for i in sub}:
            out.fail((PROPERTY, 'export-import', 'wrong-objects'),
                     'import of the export of node %d: start %s, objects %r ; expected %r' % (
                         start, got_start, sorted(seen), sorted('MARK%03d' % i for i in sub)))
            return
        for i in sorted(sub):
            exp = canon(payload_of(objs[i])['items'], visit_orig)
            if seen['MARK%03d' % i] != exp:
                out.fail((PROPERTY, 'export-import', 'graph-differs'),
                         'imported copy of node %d is %r ; exported graph has %r' % (i, seen['MARK%03d' % i], exp))
                return
        if set(oids.values()) != new or (set(oids.values()) & set(oid_of.values())):
            out.fail((PROPERTY, 'export-import', 'oids'),
                     'the copy uses oids %r ; new records %r ; originals %r' % (sorted(oids.values()), sorted(new), sorted(oid_of.values())))
    finally:
        tm_c.abort()
        cc.close()


def has_cycle(strong, nodes):
    color = {}

    def dfs(u):
        color[u] = 1
        for v in strong[u]:
            if v in nodes:
                if color.get(v) == 1:
                    return True
                if v not in color and dfs(v):
                    return True
        color[u] = 2
        return False
    return any(u not in color and dfs(u) for u in nodes)


def finish(out, features):
    out.label(*features)
    out.nontrivial = 'shared-or-cyclic' in features and 'nested' in features
    return out


LEVEL_TEXT = ('Generated graphs are stored and re-loaded; isomorphism, exact stored-record set, marker containment and the result '
              'of referencesf/get_refs on every record are checked against the generator\'s own bookkeeping of where it put '
              'which kind of reference.')
LEVEL_NOTE = 'Trusted: generator bookkeeping of edges; MappingStorage iterator as the record listing. ExportImport: sub-graphs with weak or cross-database references are outside its documented domain and are not exported.'
