"""C20 — object ids are never issued twice or for an object that already exists."""
import io
import os

from hypothesis import strategies as st

from vlib import clock, locks, records
from vlib.driver import Outcome, newdir
from vlib.model import Z64, p64, scan_universe, u64

PROPERTY = 'C20'
LEVEL = 'exploration'
TECH = ('stateful PBT: generated allocation/store/restore/copy/pack/reopen/push/pop/import programs; invariant id not in issued+present; '
        'generated allocator threads x generated schedules under a deterministic scheduler')
RULE = ('cases = generated programs over FileStorage, MappingStorage and DemoStorage (over mapping/file bases, with '
        'push/pop and an adversarial small-integer random stream): new_oid, stores/restores/copies of records with '
        'arbitrary ids, aborts, packs, close/reopen, DB-level adds inside savepoints and importFile; oracle after '
        'EVERY allocation: id not in the set issued since the storage was opened and not the id of any record present '
        '(as listed by the storage iterator of every layer); evaluations = allocations checked; non-trivial = '
        'allocation following a store/restore/copy of an id above the previous high-water mark, a reopen, or a demo '
        'stack change; a quarter of the cases are THREAD cases: 2-4 allocator threads (new_oid, add+commit) on file, mapping '
        'and demo storages under vlib/sched.py with every line of new_oid a yield point; oracle: no id issued twice; '
        'distinct by (program hash, allocation index)')
ASSUMPTIONS = ['after close+reopen ids issued earlier but never stored (or packed away) may be issued again (the '
               'statement quantifies over "while a storage is open" and over what is stored)',
               'thread cases: preemption at lock operations, file operations and the lines of the storages\' new_oid only; schedules are sampled']
BUDGET = {'quick': {'examples': 16000, 'workers': 8},
          'thorough': {'examples': 100000, 'workers': 16}}

KINDS = ['fs', 'fs', 'mapping', 'demo', 'demo-map-base', 'demo-fs-base', 'demo-fs-changes']
HIGH = [1, 2, 3, 5, 255, 256, 257, 65535, 65536, 2 ** 32, 2 ** 62 - 1]


def thread_strategy():
    from vlib import threadprog
    return st.fixed_dictionaries({
        'mode': st.just('threads'),
        'kind': st.sampled_from(['fs', 'mapping', 'demo']),
        'programs': st.lists(st.tuples(st.just('allocator'), threadprog.program_strategy('allocator')).map(list),
                             min_size=2, max_size=4),
        'schedule': threadprog.SCHEDULE,
        'lines': st.just(True),
    })


def execute_threads(case):
    import sys
    import ZODB.BaseStorage
    import ZODB.DemoStorage
    import ZODB.MappingStorage
    from ZODB.POSException import ConflictError
    from vlib import threadprog
    out = Outcome()
    clock.install()
    clock.reset()
    d = newdir()
    tr = threadprog.ThreadRun(case['kind'], d)
    try:
        threads = [('a%d' % i, tr.body('a%d' % i, prog, role)) for i, (role, prog) in enumerate(case['programs'])]
        funcs = [ZODB.BaseStorage.BaseStorage.new_oid, ZODB.MappingStorage.MappingStorage.__dict__['new_oid'],
                 ZODB.DemoStorage.DemoStorage.new_oid, ZODB.BaseStorage.BaseStorage.set_max_oid]
        s = tr.run(threads, case['schedule'], funcs)
        out.evals = len(tr.issued)
        out.label('threads', 'threads-' + case['kind'])
        if not threadprog.thread_problems(s, out, PROPERTY, allowed=(ConflictError,)):
            seen = {}
            for th, oid in tr.issued:
                if oid in seen:
                    out.fail((PROPERTY, 'threads-new_oid', 'issued-twice'),
                             'threads %s and %s were both handed oid %d' % (seen[oid], th, u64(oid)))
                    break
                seen[oid] = th
            else:
                existing = set(tr.oids.values())
                dup = [o for _, o in tr.issued if o in existing]
                if dup:
                    out.fail((PROPERTY, 'threads-new_oid', 'existing-object'), 'issued id %d of an existing object' % u64(dup[0]))
        out.nt_keys = [(repr(sorted(case.items())), i) for i in range(len(tr.issued))] if s.switches else []
        if s.switches:
            out.label('threads-with-preemption')
    finally:
        tr.close()
    return out


def strategy(tier):
    free, phased = _seq_strategy(tier)
    thr = thread_strategy()
    # (explicit weights: nested one_of's are flattened and identical strategy objects collapse)
    return st.integers(0, 99).flatmap(lambda r: thr if r < 25 else phased if r < 40 else free)


def _seq_strategy(tier):
    n = 14 if tier == 'quick' else 30
    op = st.one_of(
        st.tuples(st.just('alloc'), st.integers(1, 4)),
        st.tuples(st.just('alloc'), st.integers(1, 4)),
        st.tuples(st.just('alloc_inside'), st.integers(1, 3), st.booleans(), st.integers(1, 4)),
        st.tuples(st.just('store_high'), st.sampled_from(HIGH), st.booleans(), st.booleans()),
        st.tuples(st.just('store_high'), st.integers(1, 12), st.booleans(), st.booleans()),
        st.tuples(st.just('store_issued'), st.booleans()),
        st.tuples(st.just('update'), st.integers(0, 9)),
        st.tuples(st.just('update'), st.integers(0, 9)),
        st.tuples(st.just('restore_high'), st.sampled_from(HIGH)),
        st.tuples(st.just('restore_high'), st.integers(1, 12), st.booleans()),
        st.tuples(st.just('copy_in'), st.lists(st.sampled_from(HIGH) | st.integers(1, 12), min_size=1, max_size=3)),
        st.tuples(st.just('reopen')),
        st.tuples(st.just('crash_reopen'), st.booleans()),
        st.tuples(st.just('pack')),
        st.tuples(st.just('push')),
        st.tuples(st.just('pop')),
        st.tuples(st.just('db_add'), st.integers(1, 3), st.booleans(), st.booleans()),
        st.tuples(st.just('import'), st.integers(1, 3)),
    ).map(list)
    free = st.fixed_dictionaries({
        'kind': st.sampled_from(KINDS),
        'base_oids': st.lists(st.sampled_from(HIGH) | st.integers(1, 12), max_size=4),
        'rand': st.lists(st.integers(1, 14), min_size=1, max_size=12),
        'ops': st.lists(op, min_size=1, max_size=n),
    })
    # the shape the quantifier names ("allocation, stores, ... packs"): ids issued and not yet stored when a
    # pack that frees something runs, allocation right after it
    k = st.integers(1, 3)
    phased = st.fixed_dictionaries({
        'kind': st.sampled_from(['fs', 'fs', 'mapping']),
        'base_oids': st.lists(st.integers(1, 12), max_size=2),
        'rand': st.just([1]),
        'ops': st.tuples(st.lists(op, max_size=3), k, st.integers(0, 9), st.booleans(), k, k, st.lists(op, max_size=4)).map(
            lambda t: t[0] + [['alloc', t[1]], ['store_issued', True], ['update', t[2]]] + ([['update', t[2]]] if t[3] else [])
            + [['alloc', t[4]], ['pack'], ['alloc', t[5]]] + t[6]),
    })
    # demo storages: an issued id whose store was aborted, then the id generator comes round again (it redraws
    # at random when it meets an existing id: base object placed right behind the allocated run)
    def demo_case(t):
        r, a, e, more, kind, pre = t
        return {'kind': kind, 'base_oids': [r + a + e], 'rand': [r],
                'ops': pre + [['alloc', a], ['store_issued', False], ['alloc', e + 1 + more]]}
    phased_demo = st.tuples(st.integers(1, 8), st.integers(1, 3), st.integers(0, 2), st.integers(0, 3),
                            st.sampled_from(['demo-map-base', 'demo-fs-base']),
                            st.lists(st.tuples(st.just('alloc'), st.integers(1, 2)).map(list), max_size=1)).map(demo_case)
    return free, st.one_of(phased, phased, phased_demo)


class RandStream:
    """DemoStorage.random replacement: generated small integers (collisions are frequent)"""

    def __init__(self, vals):
        self.vals = list(vals)
        self.i = 0

    def randint(self, a, b):
        v = self.vals[self.i % len(self.vals)] + (self.i // len(self.vals))
        self.i += 1
        return max(a, min(b, v))


def commit_records(storage, recs, restore=False, tid=None, serial_of_unknown=Z64):
    """one transaction storing (oid, data) records"""
    from ZODB.Connection import TransactionMetaData
    t = TransactionMetaData()
    if tid is not None:
        storage.tpc_begin(t, tid)
    else:
        storage.tpc_begin(t)
    try:
        for oid, data in recs:
            if restore:
                storage.restore(oid, tid, data, '', None, t)
            else:
                try:
                    serial = storage.load(oid, '')[1]
                except KeyError:
                    serial = serial_of_unknown
                storage.store(oid, serial, data, '', t)
        storage.tpc_vote(t)
        return storage.tpc_finish(t)
    except BaseException:
        storage.tpc_abort(t)
        raise


def execute(case):
    if case.get('mode') == 'threads':
        return execute_threads(case)
    import ZODB.DemoStorage
    from ZODB.DemoStorage import DemoStorage
    from ZODB.FileStorage import FileStorage
    from ZODB.MappingStorage import MappingStorage
    out = Outcome()
    out.evals = 0
    clock.install()
    from vlib import sched
    sched.install()
    clock.reset()
    d = newdir()
    kind = case['kind']
    uid = [0]
    nt = []
    real_random = ZODB.DemoStorage.random
    ZODB.DemoStorage.random = RandStream(case['rand'])
    opened = []

    def rec(n=0):
        uid[0] += 1
        return records.make_record(uid[0], pad=n)

    def mkfs(name):
        s = FileStorage(os.path.join(d, name))
        return s

    # --- build the storage under test
    base = None
    if kind == 'fs':
        s = mkfs('Data.fs')
    elif kind == 'mapping':
        s = MappingStorage()
    else:
        if kind == 'demo':
            base = None
        elif kind in ('demo-map-base', 'demo-fs-changes'):
            base = MappingStorage()
        else:
            base = mkfs('Base.fs')
        if base is not None:
            for o in case['base_oids']:
                commit_records(base, [(p64(o), rec())])
                clock.CLOCK.advance(1)
        changes = mkfs('Changes.fs') if kind == 'demo-fs-changes' else None
        s = DemoStorage(base=base, changes=changes)
    stack = [s]
    issued = set()
    state = {'high_event': False, 'n_alloc': 0}

    def watch(st_):
        """every allocation, from whatever caller (Connection.add, savepoints, importFile),
        passes through the storage's new_oid: observe it at that API boundary"""
        orig = st_.new_oid

        def new_oid():
            oid = orig()
            check_alloc(oid, 'new_oid')
            return oid
        st_.new_oid = new_oid
        return st_

    def layers(st_):
        """all storages whose records are 'present' in st_"""
        res = []
        while isinstance(st_, DemoStorage):
            res.append(st_.changes)
            st_ = st_.base
        res.append(st_)
        return res

    def present():
        p = set()
        for layer in layers(stack[-1]):
            oids, _ = scan_universe(layer)
            p.update(oids)
        return p

    def check_alloc(oid, how):
        out.evals += 1
        state['n_alloc'] += 1
        if not (isinstance(oid, bytes) and len(oid) == 8):
            out.fail((PROPERTY, how, 'bad-oid'), '%r' % (oid,))
            return
        if oid in issued:
            out.fail((PROPERTY, how, 'issued-twice'),
                     '%s returned %d which was already issued while this storage was open' % (how, u64(oid)))
        elif oid in present():
            out.fail((PROPERTY, how, 'existing-object'),
                     '%s returned %d which identifies a record present in the storage' % (how, u64(oid)))
        issued.add(oid)
        if state['high_event']:
            nt.append(state['n_alloc'])
            state['high_event'] = False

    try:
        watch(s)
        for op in case['ops']:
            k = op[0]
            cur = stack[-1]
            clock.CLOCK.advance(1)
            if k == 'alloc':
                for _ in range(op[1]):
                    cur.new_oid()
            elif k == 'alloc_inside':
                # allocation while a transaction that has already stored records is between store and finish:
                # the ids it stored (one issued before, one arbitrary) are neither committed nor free
                from ZODB.Connection import TransactionMetaData
                t = TransactionMetaData()
                mine = cur.new_oid()
                if out.failures:
                    break
                foreign = p64(max([u64(x) for x in present() | issued] + [0]) + op[1])
                cur.tpc_begin(t)
                try:
                    cur.store(mine, Z64, rec(), '', t)
                    stored = {mine}
                    if op[2] and foreign not in issued:
                        cur.store(foreign, Z64, rec(), '', t)
                        stored.add(foreign)
                    before = set(issued)
                    for _ in range(op[3]):
                        cur.new_oid()
                    window = issued - before
                    cur.tpc_vote(t)
                    cur.tpc_finish(t)
                except BaseException:
                    cur.tpc_abort(t)
                    raise
                out.evals += 1
                clash = window & stored
                if clash and isinstance(cur, DemoStorage) and mine not in clash:
                    # a demo storage "rejects any id present in either layer or already issued" (anchor): a record
                    # stored under an arbitrary id by a transaction still in progress is neither - not judged
                    out.label('demo-allocation-of-pending-arbitrary-id')
                elif clash:
                    out.fail((PROPERTY, 'new_oid', 'id-of-record-being-committed'),
                             'new_oid returned %r while a transaction that had stored a record under it was between store and finish' % (
                                 sorted(u64(x) for x in clash),))
                state['high_event'] = True
                out.label('alloc-inside-open-transaction')
            elif k == 'store_high':
                oid = p64(op[1]) if op[1] > 12 else p64(max([u64(x) for x in present() | issued] + [0]) + op[1])
                if oid in issued:
                    continue
                if op[2]:
                    from ZODB.FileStorage import FileStorage as _FS
                    if len(op) > 3 and op[3] and isinstance(cur, _FS):
                        # (a writer that believes the object exists - a replayed (oid, serial, data) triple: the file
                        # storage takes a record for an id it does not know whatever serial comes with it)
                        commit_records(cur, [(oid, rec())], serial_of_unknown=b'\0\0\0\0\0\0\0\x07')
                        out.label('store-arbitrary-id-with-a-serial')
                    else:
                        commit_records(cur, [(oid, rec())])
                    state['high_event'] = True
                    out.label('store-arbitrary-id')
                else:
                    # stored but aborted
                    from ZODB.Connection import TransactionMetaData
                    t = TransactionMetaData()
                    try:
                        serial = cur.load(oid, '')[1]
                    except KeyError:
                        serial = Z64
                    cur.tpc_begin(t)
                    cur.store(oid, serial, rec(), '', t)
                    cur.tpc_abort(t)
                    out.label('store-aborted')
            elif k == 'update':
                # a new revision of an existing object (gives a later pack something to free)
                pres = []
                for o in sorted(present() - {Z64}):       # (not the database root; not un-created objects)
                    try:
                        cur.load(o, '')
                        pres.append(o)
                    except KeyError:
                        pass
                if pres and not isinstance(cur, DemoStorage):
                    commit_records(cur, [(pres[op[1] % len(pres)], rec())])
                    out.label('update')
            elif k == 'store_issued':
                # the normal life of an issued id: it gets stored (or not)
                if issued:
                    oid = sorted(issued)[-1]
                    if oid not in present() and op[1]:
                        commit_records(cur, [(oid, rec())])
                    elif oid not in present():
                        # ... or its commit fails after the store: the id stays issued, never stored
                        from ZODB.Connection import TransactionMetaData
                        t = TransactionMetaData()
                        cur.tpc_begin(t)
                        cur.store(oid, Z64, rec(), '', t)
                        cur.tpc_abort(t)
                        out.label('issued-id-stored-then-aborted')
            elif k == 'restore_high' and isinstance(cur, FileStorage):
                oid = p64(op[1])
                if oid in issued:
                    continue
                tid = p64(max(u64(cur.lastTransaction()), 1) + 1000)
                if len(op) > 2 and op[2] and oid not in present():
                    # the record of an un-created object (no data, no back-pointer) copied in under that id
                    commit_records(cur, [(oid, None)], restore=True, tid=tid)
                    out.label('restore-uncreation-record')
                else:
                    commit_records(cur, [(oid, rec())], restore=True, tid=tid)
                state['high_event'] = True
                out.label('restore-arbitrary-id')
            elif k == 'copy_in' and isinstance(cur, FileStorage) and cur.lastTransaction() == Z64:
                src = MappingStorage()
                for o in op[1]:
                    commit_records(src, [(p64(o), rec())])
                    clock.CLOCK.advance(1)
                cur.copyTransactionsFrom(src)
                state['high_event'] = True
                out.label('copy-in')
            elif k == 'reopen' and isinstance(cur, FileStorage) and len(stack) == 1:
                cur.close()
                stack[-1] = watch(mkfs('Data.fs'))
                issued.clear()
                state['high_event'] = True
                out.label('reopen')
            elif k == 'crash_reopen' and isinstance(cur, FileStorage) and len(stack) == 1 and kind == 'fs':
                # the process dies between vote and finish; the file is reopened (the unfinished tail is cut off),
                # with or without the index saved earlier
                from ZODB.Connection import TransactionMetaData
                t = TransactionMetaData()
                cur.tpc_begin(t)
                x = cur.new_oid()
                if out.failures:
                    cur.tpc_abort(t)
                    break
                cur.store(x, Z64, rec(), '', t)
                cur.tpc_vote(t)
                path = os.path.join(d, 'Data.fs')
                with open(path, 'rb') as f:
                    image = f.read()
                cur.tpc_abort(t)
                cur.close()
                with open(path, 'wb') as f:
                    f.write(image)
                if op[1] and os.path.exists(path + '.index'):
                    os.remove(path + '.index')
                stack[-1] = watch(mkfs('Data.fs'))
                issued.clear()
                state['high_event'] = True
                out.label('reopen-after-crash-in-commit')
            elif k == 'pack' and not isinstance(cur, DemoStorage):
                from ZODB.serialize import referencesf
                try:
                    cur.pack(clock.CLOCK.now, referencesf, gc=False)
                except Exception as e:
                    if type(e).__name__ not in ('FileStorageError', 'RedundantPackWarning', 'ValueError'):
                        raise
                out.label('pack')
            elif k == 'push' and isinstance(cur, DemoStorage) and len(stack) < 4:
                stack.append(watch(cur.push()))
                issued.clear()          # a new storage object
                state['high_event'] = True
                out.label('push')
            elif k == 'pop' and isinstance(cur, DemoStorage) and len(stack) > 1:
                stack.pop()
                cur.pop()
                issued.clear()
                state['high_event'] = True
                out.label('pop')
            elif k == 'db_add':
                db_add(cur, op[1], op[2], op[3], check_alloc, out)
            elif k == 'import':
                db_import(cur, op[1], check_alloc, present, out)
            if out.failures:
                break
    finally:
        ZODB.DemoStorage.random = real_random
        for st_ in reversed(stack):
            try:
                st_.close()
            except Exception:
                pass
        if base is not None:
            try:
                base.close()
            except Exception:
                pass
    out.label(kind)
    h = repr(sorted(case.items()))
    out.nt_keys = [(h, n) for n in nt]
    return out


def ensure_root(storage):
    """a DB needs a root object; create it at storage level if missing"""
    import ZODB
    return ZODB.DB(storage)


def db_add(storage, n, use_savepoint, do_commit, check_alloc, out):
    """DB-level: explicit adds (ids are allocated at add time), optionally inside a savepoint"""
    import transaction
    from vlib.vclasses import Node
    db = ensure_root(storage)
    tm = transaction.TransactionManager()
    conn = db.open(tm)
    try:
        root = conn.root()
        for i in range(n):
            if use_savepoint and i == 1:
                tm.savepoint()
            o = Node()
            conn.add(o)
            root['k%d' % i] = o
        if use_savepoint:
            tm.savepoint()
            o = Node()
            conn.add(o)
            root['sp'] = o
            out.label('alloc-in-savepoint')
        if do_commit:
            tm.commit()
        else:
            tm.abort()
    finally:
        tm.abort()
        conn.close()
        # closing the DB must not close the storage under test
        db._mvcc_storage = None if False else db._mvcc_storage
        _detach(db)


def _detach(db):
    """release a DB without closing the underlying storage"""
    try:
        db.pool.clear() if hasattr(db.pool, 'clear') else None
    except Exception:
        pass


def db_import(storage, n, check_alloc, present, out):
    import transaction
    import ZODB
    from ZODB.MappingStorage import MappingStorage
    from vlib.vclasses import Node
    # build an export file from a throw-away database
    src = ZODB.DB(MappingStorage())
    tm = transaction.TransactionManager()
    c = src.open(tm)
    top = Node()
    top.kids = [Node() for _ in range(n)]
    c.root()['top'] = top
    tm.commit()
    f = io.BytesIO()
    c.exportFile(top._p_oid, f)
    c.close()
    src.close()
    f.seek(0)
    db = ensure_root(storage)
    tm = transaction.TransactionManager()
    conn = db.open(tm)
    try:
        before = present()
        imported = conn.importFile(f)
        conn.root()['imp%d' % len(before)] = imported
        tm.commit()
        out.label('import')
    finally:
        tm.abort()
        conn.close()
        _detach(db)


LEVEL_TEXT = ('Generated programs interleave allocation with every way ids can enter a storage (store/restore/copy with '
              'arbitrary ids, demo layers, push/pop, reopen, pack, DB adds inside savepoints, importFile); the invariant '
              'is checked against the harness\'s own issued-set and the storage iterators after every allocation.')
LEVEL_NOTE = ('Trusted: storage iterators as the listing of present records. DemoStorage randomness replaced by a generated '
              'small-integer stream. Concurrent allocators: sampled schedules under vlib/sched.py (trusted).')
