"""C03 — no lost updates: writers of the same object cannot both commit blindly."""
from vlib import mvccprog
from checks import c02_snapshot

PROPERTY = 'C03'
LEVEL = 'exploration'
TECH = ('model-based PBT: generated overlapping writers/readCurrent vs commit-outcome model; derived-from invariant over the stored '
        'history; generated committer threads x generated schedules under a deterministic scheduler')
RULE = ('cases = generated write-heavy programs for 2-3 connections over shared plain and resolvable (Counter) objects with '
        'readCurrent declarations and retries, interleaved by the generator, on file/mapping/demo storages; oracle: (1) a '
        'commit succeeds iff no object it wrote or declared current has a newer committed revision than its snapshot, or the '
        'stale written objects are all resolvable (then the merge is stored); otherwise a ConflictError and nothing stored; '
        '(2) from the storage iterator: every revision of a plain object embeds the serial it was computed from, which must '
        'be the tid of the immediately preceding revision; (3) stored values equal the model\'s serial history; '
        'evaluations = steps; non-trivial = program with >= 1 commit whose write/readCurrent set overlaps a transaction '
        'committed during its lifetime; half of the cases are THREAD cases (write-heavy committer threads under the '
        'deterministic scheduler of vlib/sched.py with generated schedules, oracles (2) and: every returned commit is stored, '
        'counters equal the sum of successful increments, plus the snapshot oracles of C02); distinct by program hash')
ASSUMPTIONS = c02_snapshot.ASSUMPTIONS
BUDGET = {'quick': {'examples': 10000, 'workers': 8},
          'thorough': {'examples': 80000, 'workers': 16}}


def strategy(tier):
    return c02_snapshot.strategy(tier, 'write-heavy')


def execute(case):
    if case.get('mode') == 'threads':
        from vlib import threadprog
        return c02_snapshot.run_threads(case, PROPERTY, [threadprog.history_oracle, threadprog.snapshot_oracle])
    out, w = c02_snapshot.run(case, PROPERTY)
    out.nontrivial = bool(w.labels & {'conflict', 'resolved', 'overlapping-commit-ok'})
    return out


LEVEL_TEXT = ('The outcome of every commit (success, merge, conflict) in generated overlapping transactions is predicted by a '
              'model and compared; afterwards the stored history is scanned for revisions derived from a stale predecessor.')
LEVEL_NOTE = c02_snapshot.LEVEL_NOTE
