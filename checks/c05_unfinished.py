"""C05 — a transaction that does not finish leaves no trace and blocks no one."""
import errno
import os
import shutil

from hypothesis import strategies as st

from vlib import clock, locks, programs, rawio
from vlib.driver import Outcome, newdir
from vlib.model import Battery, Model

PROPERTY = 'C05'
LEVEL = 'fault_enumeration'
TECH = ('fault-point enumeration: for each generated history one designated transaction is interrupted at every '
        'raw I/O operation / protocol phase; state before = state after by query battery, on disk and in memory')
RULE = ('a case = generated prefix history + designated transaction + interruption mode (abort at a phase; injected '
        'OSError at EVERY raw operation on Data.fs/.tmp of that transaction, optionally sticky or partial writes; '
        'quota; conflict; over-long metadata; calls with a wrong transaction object) + a follow-up transaction; '
        'evaluations = interruption points executed; oracle: battery(live) and battery(reopened copy of the files) '
        'equal the model before the transaction, commit lock free, follow-up commits and survives reopen; '
        'non-trivial = interruption after >= 1 store (or inside vote) with >= 1 earlier committed transaction; '
        'a fifth of the cases are CONNECTION-level programs (vlib/objprog, as C11/C12, also explicit transaction mode): changes, '
        'optionally partly saved by a savepoint, then a commit interrupted by a participant failing in tpc_begin/commit/'
        'tpc_vote, by a conflict (also on an object saved by the savepoint) or by an unpicklable object, then the connection '
        'is used again; oracle: every committed object reads its last committed state, nothing was stored, new objects are '
        'disowned, the next commit stores exactly what the model says; non-trivial = a successful commit after a failed one; '
        'distinct by (program hash, interruption point)')
ASSUMPTIONS = ['faults inside tpc_finish (after the status flip began) are judged by the C01 outcome: the storage '
               'reopens to the state before or after the whole transaction',
               'commit-lock freedom is probed by a non-blocking acquire of the storage\'s _commit_lock']
BUDGET = {'quick': {'examples': 8000, 'workers': 8},
          'thorough': {'examples': 60000, 'workers': 16}}

MODES = ['abort', 'fault', 'fault', 'fault', 'quota', 'wrongtxn', 'meta']


def strategy(tier):
    n = 5 if tier == 'quick' else 9

    def build(kind):
        allow = {'stale'} | ({'del', 'undo', 'reopen'} if kind == 'fs' else set())
        victim_allow = allow - {'reopen'}
        recs = st.lists(programs.rec_strategy(victim_allow), min_size=1, max_size=4)
        return st.fixed_dictionaries({
            'kind': st.just(kind),
            'pre': programs.program_strategy(kind, n, allow),
            'victim_meta': programs.meta_strategy(),
            'victim_recs': recs,
            'mode': st.sampled_from(MODES),
            'abort_at': st.integers(-1, 4),
            'sticky': st.sampled_from([0, 0, 0, 1, 2, 5]),
            'err': st.sampled_from([errno.ENOSPC, errno.EIO]),
            'partial': st.sampled_from([0, 0, 1, 7, 23, 100]),
            'quota_delta': st.integers(0, 400),
            'read_probe': st.sampled_from([0, 1, 2, 2, 3]),     # 0 none, 1 before the vote, 2 after it, 3 both
            'big': st.sampled_from([65536, 70000]),
            'bigfield': st.integers(0, 2),
            'post': programs.txn_strategy(victim_allow - {'stale'}),
        })
    raw = st.sampled_from(['fs', 'fs', 'fs', 'mapping', 'demo', 'demo-fs']).flatmap(build)
    return st.integers(0, 99).flatmap(lambda r: conn_strategy(tier) if r < 20 else blob_strategy() if r < 28 else raw)


def blob_strategy():
    """blob storages (anchor src/ZODB/blob.py): a raw transaction that has stored a blob sees calls made with another
    transaction object, then finishes or is aborted before / after its vote; driven through C13's blob world"""
    from checks import c13_blobs
    d = st.integers(0, len(c13_blobs.DATA) - 1)
    op = st.one_of(st.tuples(st.just('foreign'), st.integers(0, 5), d, st.sampled_from(['finish', 'abort', 'abort', 'vote-abort', 'vote-abort'])),
                   st.tuples(st.just('write'), st.integers(0, 1), st.sampled_from(['w', 'a']), d), st.tuples(st.just('commit')),
                   st.tuples(st.just('abort')), st.tuples(st.just('observe'), st.booleans()),
                   # (file storage with a blob directory) an undo transaction that is refused at the vote after the storage
                   # has put the restored blob files in place; and one that commits
                   st.tuples(st.just('undo'), st.sampled_from([4, 5, 4, 0]))).map(list)
    return st.fixed_dictionaries({'mode': st.just('blob'), 'kind': st.sampled_from(['bmap', 'bmap', 'fs', 'fs', 'bfs']),
                                  'ops': st.lists(op, min_size=2, max_size=8)})


def execute_blob(case):
    from checks import c13_blobs
    out = Outcome()
    out.evals = 0
    clock.install()
    locks.install()
    clock.reset()
    d = newdir()
    w = c13_blobs.BlobWorld(case['kind'], d, out, prop=PROPERTY)
    try:
        for op in (['create', 0, 2], ['create', 1, 3], ['commit']):
            w.step(op)
        for op in case['ops']:
            w.step(op)
            clock.CLOCK.advance(0.25)
            out.evals += 1
            if out.failures:
                break
    finally:
        w.close()
    out.label('blob-storage', 'blob-' + case['kind'], *['blob-' + x for x in w.labels])
    out.nontrivial = 'foreign-transaction-calls-then-abort' in w.labels
    return out


def conn_strategy(tier):
    """the connection's half of the statement ('connection reverts or disowns the objects of a failed commit',
    'a failing vote of another participant', conflicts): object-level programs with savepoints and commits that
    fail at every phase, judged by the object-level model of vlib/objprog (shared with C11/C12)"""
    from vlib import objprog
    n = 18 if tier == 'quick' else 35
    free = objprog.op_strategy({'fail', 'savepoint'})
    k = st.integers(0, 7)
    slot = st.sampled_from(objprog.SLOTS)
    mod = st.one_of(st.tuples(st.just('set'), k, slot, st.integers(1, 9)), st.tuples(st.just('set'), k, slot, st.integers(1, 9)),
                    st.tuples(st.just('new'), st.sampled_from(objprog.KINDS), k, slot, st.sampled_from(['r', 'rl', 'add+r']))).map(list)
    fail = st.one_of(st.tuples(st.just('fail_commit'), st.sampled_from(['tpc_begin', 'commit', 'tpc_vote']), st.sampled_from(['before', 'after'])),
                     st.tuples(st.just('conflict_commit'), k), st.tuples(st.just('conflict_commit'), k),
                     st.tuples(st.just('pickle_fail_commit'), k)).map(list)
    # the shape the statement is about: changes (optionally partly saved by a savepoint), a commit that is
    # interrupted, then the connection is used again
    phased = st.tuples(st.lists(free, max_size=3), st.lists(mod, min_size=1, max_size=4), st.booleans(),
                       st.lists(mod, max_size=2), fail, st.lists(free, min_size=1, max_size=6)).map(
        lambda t: t[0] + t[1] + ([['savepoint']] + t[3] if t[2] else []) + [t[4], ['read', 0], ['read', 1], ['read', 2], ['read', 3]]
        + t[5] + [['commit']])
    return st.fixed_dictionaries({'mode': st.just('conn'),
                                  'kind': st.sampled_from(['fs', 'fs', 'mapping', 'demo']),
                                  'explicit': st.sampled_from([False, False, True]),
                                  'ops': st.one_of(st.lists(free, min_size=3, max_size=n), phased, phased)})


def execute_conn(case):
    from checks.c11_objects import storage_factory
    from vlib import objprog
    out = Outcome()
    out.evals = 0
    clock.install()
    locks.install()
    clock.reset()
    d = newdir()
    # (lenient: what a NEW object that a savepoint had already saved looks like after the failed commit is not
    # judged - it is disowned as a ghost; C11 judges new objects of programs without savepoints strictly)
    w = objprog.World(storage_factory(case['kind'], d), out, PROPERTY, lenient_disowned=True,
                      explicit=case.get('explicit', False))
    failed = False
    nt = False
    try:
        for op in (['new', 'N', 0, 's0', 'r'], ['new', 'M', 0, 's0', 'r'], ['new', 'L', 1, 's1', 'rl'], ['commit']):
            w.step(op)
        for op in case['ops']:
            w.step(op)
            clock.CLOCK.advance(0.25)
            out.evals += 1
            if out.failures:
                break
            if any(x.startswith('failed-commit') or x == 'conflict' for x in w.labels):
                failed = True
            if failed and op[0] == 'commit' and ('commit' in w.labels or 'commit-with-new' in w.labels):
                nt = True
    finally:
        w.close()
    out.label('connection-level', 'conn-' + case['kind'], *['conn-' + x for x in w.labels])
    out.nontrivial = nt
    return out


def commit_lock_free(storage):
    for s in (storage, getattr(storage, 'changes', None)):
        lock = getattr(s, '_commit_lock', None)
        if lock is None:
            continue
        if not lock.acquire(False):
            return False
        lock.release()
    return True


def data_file(kind, d):
    if kind == 'fs':
        return os.path.join(d, 'Data.fs')
    if kind == 'demo-fs':
        return os.path.join(d, 'Changes.fs')
    return None


def disk_check(kind, d, model, out, where):
    """what a fresh process would see: open a copy of the data file alone"""
    from ZODB.FileStorage import FileStorage
    src = data_file(kind, d)
    if src is None:
        return
    d2 = newdir()
    p = os.path.join(d2, 'Data.fs')
    shutil.copyfile(src, p)
    before = os.path.getsize(p)
    fs = FileStorage(p)
    try:
        tmp = Outcome()
        Battery(programs.CAPS['fs']).compare(fs, model, tmp, PROPERTY, where=where + ' [reopened copy of data file]')
        for f in tmp.failures:
            out.fail((PROPERTY, 'disk') + f.sig[1:], f.msg)
    finally:
        fs.close()


def reader_probe(runner, t, phase):
    """other threads keep loading while the transaction is open: every committed object is read
    (through the storage's pooled read handles) between the stores and the vote, and between the
    vote and the finish/abort; the answers must be the committed ones"""
    from vlib.model import q_load
    if not (runner.read_phases & (1 if phase == 'stored' else 2)):
        return
    for oid in sorted(runner.model.oids()):
        got = q_load(runner.storage, oid)
        if got not in runner.model.x_load(oid):
            runner.fail('read-during-transaction', 'mismatch',
                        'load(%r) while a transaction is %s -> %s ; committed %s' % (
                            oid, phase, str(got)[:80], str(runner.model.x_load(oid))[:120]))
            return
    runner.labels.add('reads-during-transaction')


def both_probes(runner, t, phase):
    reader_probe(runner, t, phase)
    wrong_txn_probe(runner, t, phase)


def wrong_txn_probe(runner, t, phase):
    """calls with a transaction other than the one being committed are rejected without effect"""
    from ZODB.Connection import TransactionMetaData
    from ZODB.POSException import StorageTransactionError
    from vlib import records
    s = runner.storage
    other = TransactionMetaData()
    oid = runner.oids[0] if runner.oids else b'\0' * 7 + b'\x63'
    data = records.make_record(99999)
    serial = runner.cur_serial(oid)
    calls = [('store', lambda: s.store(oid, serial, data, '', other)),
             ('tpc_vote', lambda: s.tpc_vote(other)),
             ('tpc_finish', lambda: s.tpc_finish(other)),
             ('checkCurrentSerialInTransaction', lambda: s.checkCurrentSerialInTransaction(oid, serial, other))]
    if runner.kind == 'fs':
        calls += [('deleteObject', lambda: s.deleteObject(oid, serial, other)),
                  ('restore', lambda: s.restore(oid, b'\x7f' * 8, data, '', None, other)),
                  ('undo', lambda: s.undo(b'AAAAAAAAAAA=', other)),
                  ('storeBlob', lambda: s.storeBlob(oid, serial, data, '/nonexistent', '', other))]
    for name, f in calls:
        try:
            f()
        except StorageTransactionError:
            continue
        runner.fail('wrong-transaction', name + '-accepted',
                    '%s with a transaction other than the one being committed did not raise '
                    'StorageTransactionError (%s phase)' % (name, phase))
    s.tpc_abort(other)      # documented: ignored
    if s.tpc_transaction() is not t:
        runner.fail('wrong-transaction', 'abort-not-ignored',
                    'tpc_abort(other transaction) ended the transaction being committed')
    runner.labels.add('wrong-txn-probe')


def execute(case):
    try:
        return _execute(case)
    finally:
        rawio.stop()


def _execute(case):
    if case.get('mode') == 'conn':
        return execute_conn(case)
    if case.get('mode') == 'blob':
        return execute_blob(case)
    out = Outcome()
    out.evals = 0
    clock.install()
    locks.install()
    kind = case['kind']
    mode = case['mode']
    if mode in ('fault', 'quota') and kind != 'fs':
        mode = 'abort'
    meta = list(case['victim_meta'])
    if mode == 'meta':
        meta[case['bigfield']] = case['big']
    end = ['finish']
    if mode == 'abort':
        end = ['abort', case['abort_at']]
    nt = []

    def setup():
        clock.reset()
        d = newdir()
        datafs = os.path.join(d, 'Data.fs')
        rawio.stop()
        r = None
        if kind == 'fs':
            rec = rawio.start(watch=lambda p: p.startswith(datafs) and not p.endswith(
                ('.index', '.index_tmp', '.lock')))
        r = programs.StorageRunner(kind, d, out, PROPERTY)
        r.count_queries = False
        r.run(case['pre'], check_each=False)
        return d, r

    def after_interruption(d, r, before, where, point):
        """the oracle proper"""
        r.model = before
        if r.abort_error is None:
            r.check(where + ' [live storage]')
            if out.failures:
                return
            disk_check(kind, d, before, out, where)
            if out.failures:
                return
        else:
            # tpc_abort itself raised (the fault persisted through the abort): the transaction
            # was not "aborted"; required is only that nothing lasting is damaged (below)
            out.label('abort-itself-failed')
        if not commit_lock_free(r.storage):
            out.fail((PROPERTY, 'locks', 'commit-lock-held'), where + ': commit lock still held')
            return
        n0 = r.committed
        post = case['post']
        r.do_txn(post[1] if len(post) > 1 else [0, 0, 0], post[2] if len(post) > 2 else [], ['finish'])
        if r.last_fault is not None:
            out.fail((PROPERTY, 'next-transaction', 'failed'), '%s: follow-up transaction failed: %r' % (where, r.last_fault))
            return
        r.check(where + ' [after follow-up transaction]')
        if out.failures:
            return
        disk_check(kind, d, r.model, out, where + ' after follow-up')
        if kind == 'fs' and not out.failures:
            r.reopen(True)
            r.check(where + ' [after follow-up and reopen]')

    if mode != 'fault':
        d, r = setup()
        try:
            if out.failures:
                return out
            before = r.model.copy()
            n_before = r.committed
            if mode == 'quota':
                size = os.path.getsize(os.path.join(d, 'Data.fs'))
                r.reopen(True, quota=size + case['quota_delta'])
                from ZODB.FileStorage.FileStorage import FileStorageQuotaError
                r.injected = (FileStorageQuotaError,)
            if mode == 'wrongtxn':
                r.read_phases = case.get('read_probe') or 0
                r.probe = both_probes if case.get('read_probe') else wrong_txn_probe
            elif case.get('read_probe'):
                r.read_phases = case['read_probe']
                r.probe = reader_probe
            r.do_txn(meta, case['victim_recs'], end)
            r.probe = None
            r.injected = ()
            out.evals += 1
            interrupted = r.committed == n_before
            if mode == 'quota' and not out.failures:
                r.reopen(True)
            if interrupted and not out.failures:
                out.label('interrupted-' + mode)
                if n_before >= 1 and (r.labels & {'abort-after-store', 'abort-after-vote', 'conflict',
                                                  'fault-before-finish', 'undo-refused'}):
                    nt.append((mode, case['abort_at']))
                after_interruption(d, r, before, 'after %s interruption' % mode, mode)
            elif not out.failures:
                out.label('victim-committed')
                r.check('victim committed normally')
                if mode == 'wrongtxn':
                    nt.append('wrongtxn')
                    disk_check(kind, d, r.model, out, 'after wrong-transaction probes')
            out.label(kind, *r.labels)
        finally:
            r.close()
        out.nt_keys = [(repr(sorted(case.items())), x) for x in nt]
        return out

    # ---- fault enumeration
    d, r = setup()
    try:
        if out.failures:
            return out
        rec = rawio.ACTIVE
        rec.raw_ops = 0
        r.read_phases = case.get('read_probe') or 0
        r.probe = reader_probe if case.get('read_probe') else None
        r.do_txn(meta, case['victim_recs'], ['finish'])
        r.probe = None
        n_ops = rec.raw_ops
        victim_commits = r.last_fault is None and r.committed > 0
    finally:
        r.close()
    out.label('fault-enum', 'ops=%d' % min(n_ops, 9))
    for n in range(n_ops):
        d, r = setup()
        try:
            if out.failures:
                return out
            datafs = os.path.join(d, 'Data.fs')
            before = r.model.copy()
            n_before = r.committed
            plan = rawio.FaultPlan('', None, n, err=case['err'], sticky=case['sticky'],
                                   partial=case['partial'] or None)
            rec = rawio.ACTIVE
            rec.raw_ops = 0
            rec.faults = [plan]
            r.injected = (OSError,)
            r.read_phases = case.get('read_probe') or 0
            r.probe = reader_probe if case.get('read_probe') else None
            try:
                r.do_txn(meta, case['victim_recs'], ['finish'])
            finally:
                rec.faults = []        # "the fault condition ends" (space freed)
                r.probe = None
            r.injected = ()
            out.evals += 1
            where = 'OSError(%s) injected at raw op #%d of %d (sticky=%d partial=%r)' % (
                errno.errorcode[case['err']], n, n_ops, case['sticky'], case['partial'])
            if not plan.fired:
                continue
            if r.last_fault is None:
                # the failure was swallowed: the transaction must then be fully committed
                out.label('fault-swallowed')
                if r.committed != n_before and any(k_ == 'fsync' and p_.endswith('Data.fs') for k_, p_ in plan.hits):
                    # the commit returned although forcing the data file to stable storage had failed: nothing says
                    # the transaction is durable (C01: "all its writes were flushed and synced before the commit call returned")
                    out.fail((PROPERTY, 'durability', 'fsync-failure-swallowed'),
                             '%s: tpc_finish returned normally although the fsync of the data file failed' % where)
                    break
                if r.committed == n_before:
                    # not committed and no error: e.g. conflict path; treat as interrupted
                    after_interruption(d, r, before, where, n)
                else:
                    r.check(where + ' [fault swallowed, transaction committed]')
                    disk_check(kind, d, r.model, out, where + ' swallowed')
                continue
            if r.in_finish:
                # C01 outcome: reopen shows all or nothing
                out.label('fault-in-finish')
                try:
                    r.storage.close()
                except Exception:
                    pass
                from ZODB.FileStorage import FileStorage
                fs = FileStorage(datafs)
                r.storage = fs
                tmp = Outcome()
                r.battery.compare(fs, before, tmp, PROPERTY, where=where + ' [reopen after failed finish; before-state]')
                if tmp.failures:
                    tmp2 = Outcome()
                    pend = getattr(r, 'pending', None)
                    if pend is not None and pend.tid is not None:
                        full = before.copy()
                        full.add(pend)
                        r.battery.compare(fs, full, tmp2, PROPERTY, where=where)
                    if tmp2.failures or pend is None or pend.tid is None:
                        f0 = tmp.failures[0]
                        out.fail((PROPERTY, 'failed-finish') + f0.sig[1:], f0.msg)
                continue
            out.label('fault-before-finish')
            if n_before >= 1:
                nt.append(n)
            after_interruption(d, r, before, where, n)
            if out.failures:
                return finish(out, case, nt)
        finally:
            r.close()
    return finish(out, case, nt)


def finish(out, case, nt):
    h = repr(sorted(case.items()))
    out.nt_keys = [(h, x) for x in nt]
    return out


LEVEL_TEXT = ('Every raw write/truncate/fsync/create the designated transaction issues on Data.fs and its .tmp file is '
              'failed in turn (ENOSPC/EIO, optionally sticky for the following operations or after a partial write), '
              'plus aborts at every protocol phase, quota, conflict, over-long metadata and wrong-transaction calls; '
              'after each the in-memory battery, a reopened copy of the data file, the commit lock and a follow-up '
              'transaction are checked. Exhaustive over fault points per generated history.')
LEVEL_NOTE = ('Trusted: rawio fault layer, reference model. Connection-level interruptions (failing participants, conflicts, unpicklable objects, with savepoints) run on the object-level model of vlib/objprog (shared with C11/C12); blobs: C13. '
              'Fault = exception from the raw write/truncate/fsync; silent short writes by the OS are not modelled.')
