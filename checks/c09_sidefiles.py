"""C09 — index and side files are only caches; a read-only open changes nothing."""
import hashlib
import os
import shutil

from hypothesis import strategies as st

from vlib import clock, locks, programs
from vlib.driver import Outcome, newdir
from vlib.model import CorruptGuard, diff_obs, fmt_answer, observe, scan_universe

PROPERTY = 'C09'
LEVEL = 'fault_enumeration'
TECH = ('differential PBT: final data file (and torn crash images of it) opened with every earlier index snapshot, '
        'every truncation of it and stale leftover files vs. opened with no index; read-only opens hashed before/after')
RULE = ('a case = generated FileStorage history with packs and reopens; the index file is snapshotted after every '
        'step; evaluations = (data file or torn image) x (index snapshot | truncated snapshot | leftover side files) '
        'opens, each compared query-by-query (full battery) with a no-index open of the same bytes, plus read-only '
        'open+use+close with SHA-1 of every file and the directory listing before/after and every writer call '
        'refused; images also include the file as seen while a writer is between vote and finish (complete transaction '
        'with status c at the end): it must open - read-write and read-only - exactly like the file without that tail; and '
        'the file that lost its unsynced tail after an injected fsync failure in tpc_finish, opened with the index the '
        'storage saved while shutting down; and the file followed by zero bytes (size extended, blocks never written); '
        'non-trivial = a stale (saved before >= 1 later commit or before a pack) or cut-short index, or a '
        'read-only open of an image with an unfinished tail; distinct by (image hash, variant hash); later additions: old dictionary-format indexes, index cuts at pickle boundaries, time-travel opens (stop=) with and without index, read-only use beside left-over side files, padding that reads like transaction/data headers and histories of large equal-sized records around a pack')
ASSUMPTIONS = ['bit damage inside an index file is outside the guarantee (statement); only truncations and stale '
               'snapshots of genuine index files are generated',
               'index snapshots newer than a crash image (saved position beyond the image) are excluded: they '
               'cannot exist under the prefix crash model',
               'iterator() of a read-only storage over a torn tail may raise CorruptedDataError (documented '
               'behaviour of FileIterator); all other queries must agree']
BUDGET = {'quick': {'examples': 1300, 'workers': 8},
          'thorough': {'examples': 6000, 'workers': 16}}
CAPS = programs.CAPS['fs']


def strategy(tier):
    n = 9 if tier == 'quick' else 14
    allow = {'stale', 'del', 'undo', 'restore', 'reopen', 'pack'}
    big = st.sampled_from([8100, 8192, 8300, 8300, 70000])
    fin = ['finish']

    @st.composite
    def phased(draw):
        """large revisions that are superseded, a pack that removes them, and large records written afterwards: the
        positions saved in the indexes from before the pack lie inside the file again - somewhere in the new records"""
        prog = []
        for _ in range(draw(st.integers(1, 3))):
            prog.append(['txn', [0, 0, 0], [['new', draw(big)]], fin])
        for _ in range(draw(st.integers(1, 3))):
            prog.append(['txn', [0, 0, 0], [['upd', draw(st.integers(0, 3)), draw(big)]], fin])
        prog.append(['pack', len(prog), draw(st.sampled_from([0, 1]))])      # (pack time: after the last transaction)
        for _ in range(draw(st.integers(1, 3))):
            prog.append(['txn', [0, 0, 0], [draw(st.sampled_from([['new', 70000], ['upd', 0, 70000], ['upd', 1, 70000], ['new', 8300]]))], fin])
        if draw(st.booleans()):
            prog.append(['reopen', draw(st.booleans())])
        return prog
    return st.fixed_dictionaries({
        'prog': st.integers(0, 99).flatmap(lambda w: phased() if w < 50 else programs.program_strategy('fs', n, allow)),
        'cuts': st.lists(st.integers(1, 400), min_size=1, max_size=3),
        'idx_cuts': st.lists(st.integers(0, 100000), min_size=2, max_size=6),
        'junk': st.integers(0, 255),
        'all_idx_cuts': st.booleans() if tier == 'thorough' else st.just(False),
        # the padding of the records reads like transaction and data record headers (a stale index position that lands
        # in it is followed by "structure", not by noise)
        'sled': st.sampled_from([True, True, False]),
    })


def sha_dir(d):
    out = {}
    for root, dirs, files in os.walk(d):
        for f in files:
            p = os.path.join(root, f)
            with open(p, 'rb') as fh:
                out[os.path.relpath(p, d)] = (hashlib.sha1(fh.read()).hexdigest(), os.path.getsize(p))
        for x in dirs:
            out[os.path.relpath(os.path.join(root, x), d) + '/'] = None
    return out


def open_and_observe(d, oids, tids, **kw):
    from ZODB.FileStorage import FileStorage
    fs = FileStorage(os.path.join(d, 'Data.fs'), **kw)
    try:
        obs = observe(fs, oids, tids, CAPS)
        if not kw.get('read_only'):
            obs[('new_oid',)] = fs.new_oid()
    finally:
        fs.close()
    return obs


def execute(case):
    from vlib import records
    records.PAD_PATTERN = None
    if case.get('sled'):
        # (rotated by a generated amount: every alignment of the pattern relative to the saved positions occurs)
        pat = records.header_like_pattern()
        rot = case['junk'] % len(pat)
        records.PAD_PATTERN = pat[rot:] + pat[:rot]
    try:
        return _execute(case)
    finally:
        records.PAD_PATTERN = None


def _execute(case):
    out = Outcome()
    out.evals = 0
    clock.install()
    locks.install()
    clock.reset()
    d = newdir()
    datafs = os.path.join(d, 'Data.fs')
    r = programs.StorageRunner('fs', d, out, PROPERTY)
    snaps = []      # (bytes of index file, data file size when saved, step number, packs so far)
    npacks = 0
    try:
        for i, op in enumerate(case['prog']):
            r.step(op)
            if op[0] == 'pack' and 'pack' in r.labels:
                npacks += 1
            # the index as it would be saved at this moment
            r.storage._save_index()
            with open(datafs + '.index', 'rb') as f:
                b = f.read()
            if not snaps or snaps[-1][0] != b:
                snaps.append((b, os.path.getsize(datafs), i, npacks))
    finally:
        r.close()
    with open(datafs, 'rb') as f:
        final = f.read()
    out.label(*r.labels)
    nt = []

    def fresh(data, files=None):
        dd = newdir()
        with open(os.path.join(dd, 'Data.fs'), 'wb') as f:
            f.write(data)
        for name, content in (files or {}).items():
            with open(os.path.join(dd, 'Data.fs' + name), 'wb') as f:
                f.write(content)
        return dd

    # data images: the final file, and torn images of it (cut inside the tail)
    images = [('final', final, npacks)]
    for c in case['cuts']:
        if len(final) - c > 4 and npacks == 0:
            images.append(('cut-%d' % c, final[:len(final) - c], 0))
    # the file as another process sees it while a writer is between vote and finish: a complete
    # transaction with status 'c' at the end
    voted = voted_image(fresh(final), case['junk'])
    if voted is not None:
        images.append(('voted-tail', voted, npacks))
    # the file size was extended at the crash but no block of the new transaction was written: zeros at the end
    images.append(('zero-filled-tail', final + b'\0' * (23 + (case['cuts'] or [5])[0]), npacks))
    # a commit whose fsync in tpc_finish fails: the storage shuts itself down and saves its index; then the
    # unsynced tail is lost.  The index saved at that moment must still be a harmless cache.
    extra_index = {}
    lost = fsync_failed_image(fresh(final, {'.index': snaps[-1][0]} if snaps else None), case['junk'])
    if lost is not None:
        images.append(('tail-lost-after-failed-fsync', lost[0], npacks))
        extra_index['tail-lost-after-failed-fsync'] = lost[1]
    ref_final = None
    for name, data, img_packs in images:
        ref_dir = fresh(data)
        from ZODB.FileStorage import FileStorage
        fs = FileStorage(os.path.join(ref_dir, 'Data.fs'))
        try:
            oids, tids = scan_universe(fs)
        finally:
            fs.close()
        ref = open_and_observe(fresh(data), oids, tids)
        himg = hashlib.sha1(data).digest()
        torn = name != 'final'
        if name == 'final':
            ref_final = ref
        elif name in ('voted-tail', 'zero-filled-tail'):
            out.label(name + '-image')
            df = diff_obs(ref_final, ref)
            if df:
                out.fail((PROPERTY, name, 'visible', df[0][0]),
                         'a file ending in %s opens as %s -> %s ; without that tail %s' % (
                             'a voted, unfinished transaction' if name == 'voted-tail' else 'zero bytes',
                             fmt_answer(df[0]), fmt_answer(df[2]), fmt_answer(df[1])))
                return done(out, nt)

        def compare(files, what, nontrivial, coincidence=False):
            dd = fresh(data, files)
            out.evals += 1
            # known finding (DESIGN 10.2): an index saved BEFORE a pack whose end position is again the end of a
            # transaction in the packed and regrown file (in particular: equals its size) passes the sanity test when the
            # transactions before that position line up; its own signature
            try:
                got = open_and_observe(dd, oids, tids)
            except Exception as e:
                if coincidence:
                    out.fail((PROPERTY, 'pre-pack-index-of-equal-size', 'accepted-by-coincidence'),
                             '%s image opened with %s raised %r (no-index open works)' % (name, what, e))
                    return
                out.fail((PROPERTY, 'open-with-variant', 'raised', type(e).__name__),
                         '%s image opened with %s raised %r (no-index open works)' % (name, what, e))
                return
            df = diff_obs(ref, got)
            if df and coincidence:
                out.fail((PROPERTY, 'pre-pack-index-of-equal-size', 'accepted-by-coincidence'),
                         '%s image opened with %s: %s -> %s ; no-index open says %s' % (
                             name, what, fmt_answer(df[0]), fmt_answer(df[2]), fmt_answer(df[1])))
            elif df:
                out.fail((PROPERTY, 'open-with-variant', 'differs', df[0][0]),
                         '%s image opened with %s: %s -> %s ; no-index open says %s' % (
                             name, what, fmt_answer(df[0]), fmt_answer(df[2]), fmt_answer(df[1])))
            if nontrivial:
                nt.append((himg, hashlib.sha1(repr(sorted(files.items())).encode()).digest()))

        if name in extra_index and extra_index[name] is not None:
            out.label('index-saved-after-failed-fsync')
            compare({'.index': extra_index[name]}, 'the index saved by the shutdown after a failed fsync in tpc_finish', True)
            if out.failures:
                return done(out, nt)
        for b, size, step, pk in snaps:
            if torn and size > len(data):
                continue            # index from the future of a crash image: outside the crash model
            stale = size < len(data) or pk < img_packs
            compare({'.index': b}, 'index saved after step %d (data size then %d, packs then %d)' % (
                step, size, pk), stale, coincidence=(pk < img_packs and size in txn_boundaries(data)))
            if stale:
                out.label('stale-index')
            if pk < img_packs:
                out.label('index-from-before-pack')
            if out.failures:
                return done(out, nt)
        # truncations of the newest usable index
        usable = [s for s in snaps if s[1] <= len(data) or not torn]
        if usable:
            b = usable[-1][0]
            cuts = range(len(b)) if case.get('all_idx_cuts') or (len(b) <= 400 and not torn) else sorted(
                {c % max(len(b), 1) for c in case['idx_cuts']} | {0, 1, len(b) - 1} | set(pickle_boundaries(b)))
            for c in cuts:
                if 0 <= c < len(b):
                    compare({'.index': b[:c]}, 'index cut to %d of %d bytes' % (c, len(b)), True)
                    if out.failures:
                        return done(out, nt)
        if usable:
            compare({'.index': old_format_index(usable[-1][0])}, 'the newest usable index in the old dictionary format', True)
            if out.failures:
                return done(out, nt)
        # leftover side files with stale content
        junk = bytes([case['junk']]) * 37
        old = snaps[0][0] if snaps else b''
        leftovers = {'.tmp': junk, '.lock': b'12345\n', '.pack': final[:len(final) // 2], '.old': final[:max(4, len(final) // 3)],
                     '.index_tmp': old[:len(old) // 2], '.tr0': junk}
        compare(leftovers, 'leftover .tmp/.lock/.pack/.old/.index_tmp/.tr0 files', False)
        if usable:
            compare(dict(leftovers, **{'.index': usable[0][0]}), 'leftovers + oldest index', True)
        if out.failures:
            return done(out, nt)

        # read-only: nothing changes, every write refused, same answers
        ro_index = None
        if usable and case['junk'] % 4 in (1, 3):
            ro_index = usable[-1][0]
        elif usable and case['junk'] % 4 == 2:
            # the index as an old release wrote it: one pickled dictionary {'index': {oid: pos}, 'pos': n}
            ro_index = old_format_index(usable[-1][0])
            out.label('read-only-with-old-format-index')
        side = {'.index': ro_index} if ro_index is not None else {}
        if case['junk'] % 3:
            # ... next to what earlier packs, crashes and recoveries may have left behind
            side.update(leftovers)
            out.label('read-only-beside-leftover-files')
        dd = fresh(data, side or None)
        before = sha_dir(dd)
        out.evals += 1
        try:
            ro = FileStorage(os.path.join(dd, 'Data.fs'), read_only=True)
        except Exception as e:
            out.fail((PROPERTY, 'read-only', 'open-raised', type(e).__name__),
                     'read-only open of %s image raised %r' % (name, e))
            return done(out, nt)
        try:
            skip = ()
            try:
                got = observe(ro, oids, tids, CAPS)
            except CorruptGuard.errors() as e:
                if not torn:
                    raise
                got = observe(ro, oids, tids, CAPS - {'iterator'})
                skip = ('iterator',)
            refx = {k: v for k, v in ref.items() if k[0] != 'new_oid' and k[0] not in skip}
            df = diff_obs(refx, got)
            if df:
                out.fail((PROPERTY, 'read-only', 'differs', df[0][0]),
                         'read-only open of %s image: %s -> %s ; read-write open of a copy says %s' % (
                             name, fmt_answer(df[0]), fmt_answer(df[2]), fmt_answer(df[1])))
            refuse_writes(ro, out, oids)
        finally:
            ro.close()
        # time-travel (documented: "data will be read up to the given transaction id"): the same with and without
        # an index file
        if tids and usable and not torn and not out.failures:
            stop = tids[case['junk'] % len(tids)]
            answers = []
            for with_index in (True, False):
                d3 = fresh(data, {'.index': usable[-1][0]} if with_index else None)
                out.evals += 1
                tt = FileStorage(os.path.join(d3, 'Data.fs'), read_only=True, stop=stop)
                try:
                    answers.append(observe(tt, oids, tids, CAPS - {'iterator', 'undoLog', 'record_iternext', 'len-exact'}))
                finally:
                    tt.close()
            df = diff_obs(answers[1], answers[0])
            out.label('time-travel-open')
            if df:
                out.fail((PROPERTY, 'time-travel-open', 'index-changes-the-answer', df[0][0]),
                         'read-only open with stop=%r: with the index file %s -> %s ; without it %s' % (
                             stop, fmt_answer(df[0]), fmt_answer(df[2]), fmt_answer(df[1])))
        after = sha_dir(dd)
        if before != after:
            changed = sorted(k for k in set(before) | set(after) if before.get(k) != after.get(k))
            out.fail((PROPERTY, 'read-only', 'files-changed'),
                     'read-only open+use+close of %s image changed %r' % (name, changed))
        if torn:
            nt.append((himg, 'read-only'))
            out.label('read-only-torn-tail')
        if out.failures:
            return done(out, nt)
    return done(out, nt)


_TB = [None, None]


def txn_boundaries(data):
    """end positions of the transactions of a data file image (independent walk over the length fields).  An index saved
    before a pack whose saved end position coincides with one of them in the packed (and regrown) file is the situation
    of the recorded finding: the sanity test looks at the transactions before that position only"""
    import struct
    if _TB[0] is data:
        return _TB[1]
    out, pos = set(), 4
    while pos + 23 <= len(data):
        tl = struct.unpack('>Q', data[pos + 8:pos + 16])[0]
        end = pos + tl + 8
        if tl < 23 or end > len(data) or data[end - 8:end] != data[pos + 8:pos + 16]:
            break
        out.add(end)
        pos = end
    _TB[0], _TB[1] = data, out
    return out


def pickle_boundaries(b):
    """end positions of the pickles the index file is a sequence of (a cut there leaves whole records)"""
    import pickletools
    out, pos = [], 0
    try:
        while pos < len(b):
            for op, arg, oppos in pickletools.genops(b[pos:]):
                if op.name == 'STOP':
                    pos += oppos + 1
                    out.append(pos)
                    break
            else:
                break
    except Exception:           # noqa: B902  (not a pickle stream: no boundaries)
        pass
    return [x for x in out if x < len(b)]


def old_format_index(b):
    import pickle
    import tempfile
    from ZODB.fsIndex import fsIndex
    with tempfile.NamedTemporaryFile(dir='/dev/shm', suffix='.index') as f:
        f.write(b)
        f.flush()
        info = fsIndex.load(f.name)
    return pickle.dumps({'index': dict(info['index'].items()), 'pos': info['pos']}, 3)


def voted_image(dd, junk):
    """bytes of the data file while a transaction is voted but not finished"""
    from ZODB.Connection import TransactionMetaData
    from ZODB.FileStorage import FileStorage
    from vlib.records import make_record
    fs = FileStorage(os.path.join(dd, 'Data.fs'))
    try:
        t = TransactionMetaData(user='voter', description='voted, not finished')
        fs.tpc_begin(t)
        oids, _ = scan_universe(fs)
        live = []
        for o in sorted(oids):
            try:
                live.append((o, fs.load(o)[1]))
            except KeyError:
                pass
        if live and junk % 3:
            oid, serial = live[junk % len(live)]
            fs.store(oid, serial, make_record(900 + junk, [], junk % 50), '', t)
        fs.store(fs.new_oid(), b'\0' * 8, make_record(901 + junk, [], junk % 70), '', t)
        fs.tpc_vote(t)
        with open(os.path.join(dd, 'Data.fs'), 'rb') as f:
            data = f.read()
        fs.tpc_abort(t)
        return data
    finally:
        fs.close()


def fsync_failed_image(dd, junk):
    """-> (data file bytes without the unsynced tail, index bytes saved by the storage's shutdown) or None"""
    import errno
    from ZODB.Connection import TransactionMetaData
    from ZODB.FileStorage import FileStorage
    from vlib import rawio
    from vlib.records import make_record
    path = os.path.join(dd, 'Data.fs')
    plan = rawio.FaultPlan('Data.fs', 'fsync', 0, err=errno.EIO)
    rawio.start(watch=lambda p: p == path, faults=[plan])
    try:
        fs = FileStorage(path)
        try:
            size_before = os.path.getsize(path)
            if plan.fired:
                return None         # (the open itself synced: the fault went there)
            oids, _ = scan_universe(fs)
            live = []
            for o in sorted(oids):
                try:
                    live.append((o, fs.load(o)[1]))
                except KeyError:
                    pass
            t = TransactionMetaData(user='x', description='fsync fails in tpc_finish')
            fs.tpc_begin(t)
            if live:
                oid, serial = live[junk % len(live)]
                fs.store(oid, serial, make_record(700 + junk, [], junk % 60), '', t)
            fs.store(fs.new_oid(), b'\0' * 8, make_record(701 + junk, [], junk % 90), '', t)
            fs.tpc_vote(t)
            try:
                fs.tpc_finish(t)
            except OSError:
                pass
            else:
                return None
        finally:
            fs.close()
    finally:
        rawio.stop()
    with open(path, 'rb') as f:
        data = f.read()[:size_before]
    idx = None
    if os.path.exists(path + '.index'):
        with open(path + '.index', 'rb') as f:
            idx = f.read()
    return data, idx


def refuse_writes(ro, out, oids):
    from ZODB.Connection import TransactionMetaData
    from ZODB.POSException import ReadOnlyError
    from ZODB.serialize import referencesf
    t = TransactionMetaData()
    oid = oids[0] if oids else b'\0' * 8
    calls = [('tpc_begin', lambda: ro.tpc_begin(t)),
             ('new_oid', lambda: ro.new_oid()),
             ('store', lambda: ro.store(oid, b'\0' * 8, b'x', '', t)),
             ('deleteObject', lambda: ro.deleteObject(oid, b'\0' * 8, t)),
             ('restore', lambda: ro.restore(oid, b'\x7f' * 8, b'x', '', None, t)),
             ('undo', lambda: ro.undo(b'AAAAAAAAAAA=', t)),
             ('pack', lambda: ro.pack(clock.CLOCK.now, referencesf))]
    for name, f in calls:
        try:
            f()
        except ReadOnlyError:
            continue
        except Exception as e:
            out.fail((PROPERTY, 'read-only', 'writer-not-refused', name),
                     '%s on a read-only storage raised %r instead of ReadOnlyError' % (name, e))
            continue
        out.fail((PROPERTY, 'read-only', 'writer-not-refused', name),
                 '%s on a read-only storage did not raise ReadOnlyError' % name)


def done(out, nt):
    out.nt_keys = nt
    return out


LEVEL_TEXT = ('Per generated history every index snapshot (one per step, including pre-pack ones), sampled (thorough: '
              'all) truncations of it and a set of stale leftover files are combined with the final data file and '
              'with torn images of it; each open is compared by the full query battery with an index-less open. '
              'Read-only opens are checked by hashing the whole directory and calling every writer.')
LEVEL_NOTE = ('Trusted: the no-index open as reference (its own correctness vs the history is C04/C01). Index snapshots '
              'are produced by FileStorage._save_index() after each step. The "writer active" case is the voted-tail image (complete transaction with status c); a live concurrent writer process is not run.')
