"""C02 — every transaction reads from one consistent snapshot."""
from hypothesis import strategies as st

from vlib import clock, locks, mvccprog
from vlib.driver import Outcome, newdir

PROPERTY = 'C02'
LEVEL = 'exploration'
TECH = ('model-based PBT: generated multi-connection programs with generator-owned interleaving vs an exact MVCC snapshot model; '
        'generated thread programs x generated schedules under a deterministic cooperative scheduler with history oracles')
RULE = ('cases = generated programs for 2-3 connections on one DB (file/mapping/demo storage, pool size 1-2) executed in one '
        'thread with the interleaving chosen by the generator: begin, read, write, increment, commit, abort, close+reopen from '
        'the pool, cacheMinimize, readCurrent; oracle: every read returns the value of the object in the snapshot fixed at the '
        'connection\'s last boundary overlaid with its own writes (values are unique write ids, so stale or future values '
        'are identified exactly), whether served from the cache or the storage; after a boundary the snapshot includes every '
        'commit completed before it; evaluations = steps; non-trivial = a read of an object for which another connection '
        'committed a newer revision after the reader\'s boundary'
        "; half of the cases are THREAD cases: 2-4 real threads (committers, readers, in 3 of 10 file/mapping cases also a packer thread with a generated pack time) on one DB run under the harness's deterministic scheduler (vlib/sched.py: one run token, yield points at every ZODB lock/condition operation, every file operation of the storage and, in half of them, every source line of the commit/poll/load functions); the schedule is generated (dense random choices, or few targeted preemptions 'at the n-th release/acquire/file/line point hand over to thread k'); oracles over the event log and the final storage: every read is the revision current at the reading connection's snapshot bound (serial < bound <= tid of the next revision), all reads of one transaction were current together, the snapshot is not older than any commit that had returned before the boundary began, every stored revision was derived from its immediate predecessor, every returned commit is stored, counters equal the sum of successful increments, no deadlock; non-trivial thread case = >= 1 preemption and >= 1 successful write commit"
        '; distinct by program hash; later additions: undoer threads, a share of write-heavy sequential programs (conflicting and savepoint commits), commit-race schedules (a committer held at the n-th operation on a storage/adapter lock while a second committer or a re-reading reader runs) and the oracle that no commit becomes visible below a snapshot bound some connection already holds')
ASSUMPTIONS = ['thread cases: preemption happens only at the scheduler\'s yield points (ZODB lock/condition operations, storage '
               'file operations, source lines of the watched commit/poll/load functions); code between two yield points is atomic; '
               'C-level races inside BTrees/persistent/pickle are not explored',
               'sequential cases: interleaving of whole API calls in one thread']
BUDGET = {'quick': {'examples': 12000, 'workers': 8},
          'thorough': {'examples': 80000, 'workers': 16}}


def thread_strategy(roles):
    from vlib import threadprog
    return st.fixed_dictionaries({
        'mode': st.just('threads'),
        'kind': st.sampled_from(['fs', 'fs', 'mapping', 'demo']),
        'programs': st.lists(st.sampled_from(roles).flatmap(
            lambda r: st.tuples(st.just(r), threadprog.program_strategy(r)).map(list)), min_size=2, max_size=4),
        'schedule': threadprog.SCHEDULE,
        'lines': st.booleans(),
        'warm': st.booleans(),
        # a packer thread among them (file and mapping storages): None or how far back the pack time lies
        'packer': st.sampled_from([None, None, None, 0.0, 0.02, 1.0]),
    })


def race_strategy():
    """two threads, the first a committer that is held up at the n-th operation on a lock of the storage or of the MVCC
    adapter (somewhere between its first load and the end of its commit) while the other - a second committer, or a
    reader that reads the same object in consecutive transactions - runs: to its end, or for m yield points before the
    committer is let go - the commit protocol's own critical sections, one yield point at a time"""
    from vlib import threadprog
    locks_of = {'fs': ['FileStorage'], 'mapping': ['MappingStorage'], 'demo': ['DemoStorage', 'MappingStorage']}
    one = st.sampled_from(threadprog.PLAIN).map(lambda n_: ['committer', [['write', n_], ['commit'], ['read', n_]]])
    two = st.tuples(st.sampled_from(threadprog.PLAIN), st.sampled_from(threadprog.PLAIN)).map(
        lambda t: ['committer', [['write', t[0]], ['write', t[1]], ['commit']]])
    again = st.integers(3, 5).map(lambda k_: ['reader', [['begin'], ['readall']] * k_])
    # (the held-up committer may be an undo transaction: its storage instance is the undo adapter)
    und = st.integers(0, 1).map(lambda k_: ['undoer', [['undo', k_], ['read', 'x0']]])

    def mk(kind):
        first = st.tuples(st.sampled_from(['release', 'release', 'acquire']),
                          st.sampled_from(locks_of[kind] * 3 + ['MVCCAdapter', 'MVCCAdapterInstance']),
                          st.integers(1, 12)).map(lambda t: ['%s:%s' % (t[0], t[1]), t[2], 0])
        sched_ = st.tuples(first, st.one_of(st.just(100000), st.integers(8, 50), st.integers(8, 50), st.integers(1, 160))).map(
            lambda t: {'segments': [t[0], ['any', t[1], 0]]})
        return st.fixed_dictionaries({
            'mode': st.just('threads'), 'kind': st.just(kind),
            'programs': st.tuples(st.one_of(one, two, und), st.one_of(one, again, again)).map(list),
            'schedule': sched_,
            'lines': st.just(False), 'warm': st.booleans(), 'packer': st.just(None)})
    return st.sampled_from(['fs', 'mapping', 'mapping', 'demo']).flatmap(mk)


def line_funcs():
    import sys
    import ZODB.Connection
    import ZODB.FileStorage
    import ZODB.MappingStorage
    import ZODB.mvccadapter
    FS = sys.modules['ZODB.FileStorage.FileStorage'].FileStorage
    A = ZODB.mvccadapter.MVCCAdapterInstance
    M = ZODB.MappingStorage.MappingStorage
    C = ZODB.Connection.Connection
    return [A.poll_invalidations, A._invalidate, A.tpc_finish, A.load, ZODB.mvccadapter.MVCCAdapter._invalidate_finish,
            ZODB.mvccadapter.UndoAdapterInstance.tpc_finish,
            FS.tpc_finish, FS._finish, FS._finish_finish, FS.loadBefore, FS.store,
            M.__dict__['tpc_finish'], M.__dict__['loadBefore'], M.__dict__['store'],
            C.newTransaction, C.tpc_finish, C.setstate]


def run_threads(case, prop, oracles):
    from vlib import threadprog
    out = Outcome()
    clock.install()
    clock.reset()
    d = newdir()
    tr = threadprog.ThreadRun(case['kind'], d, prehistory=2 if case.get('packer') is not None or any(r == 'undoer' for r, _ in case['programs']) else 0, warm=case.get('warm', True))
    try:
        threads = []
        for i, (role, prog) in enumerate(case['programs']):
            threads.append(('%s%d' % (role[0], i), tr.body('%s%d' % (role[0], i), prog, role)))
        if case.get('packer') is not None and case['kind'] in ('fs', 'mapping'):
            threads.append(('packer', tr.packer('packer', case['packer'])))
            out.label('threads-with-packer')
        s = tr.run(threads, case['schedule'], line_funcs() if case.get('lines') else ())
        out.evals = max(1, s.steps)
        out.label('threads', 'threads-' + case['kind'])
        if s.switches:
            out.label('threads-with-preemption')
        if any('tpc_finish' in p or 'poll_invalidations' in p or '_finish' in p for p in s.preempt_points):
            out.label('preempted-inside-finish-or-poll')
        from ZODB.POSException import ConflictError
        threadprog.tolerate_pack_failed_by_undo(s, tr, out)
        if not threadprog.thread_problems(s, out, prop, allowed=(ConflictError,)):
            for o in list(oracles) + [threadprog.final_reads_oracle]:
                if not out.failures:
                    o(tr, out, prop)
        out.nontrivial = s.switches > 0 and any(k == 'commit-ok' and d_[0] for _, _, k, d_ in tr.events)
    finally:
        tr.close()
    return out


def strategy(tier, weights='mixed'):
    n = 25 if tier == 'quick' else 50
    seq = _seq_strategy(n, weights)
    # (an undoer is a committer whose transaction is written by the storage's undo and announced by the undo adapter)
    roles = ['committer', 'committer', 'reader', 'reader', 'undoer'] if weights == 'mixed' else ['committer']
    if weights == 'mixed':
        # one share of write-heavy programs (conflicting, retried and savepoint commits: what a failed commit leaves in
        # the connection's cache is part of what the next transaction reads)
        heavy = _seq_strategy(n, 'write-heavy')
        return st.integers(0, 99).flatmap(lambda w: seq if w < 34 else heavy if w < 44 else race_strategy() if w < 56
                                          else thread_strategy(roles))
    return st.integers(0, 99).flatmap(lambda w: seq if w < 46 else race_strategy() if w < 54 else thread_strategy(roles))


def _seq_strategy(n, weights):
    def ops(nc):
        free = st.lists(mvccprog.op_strategy(nc, weights), min_size=10, max_size=n)
        if weights != 'write-heavy':
            # snapshot bounds that coincide with a commit: with a stalled clock consecutive commits get
            # consecutive tids, a reader that begins between them has the second tid as its (exclusive) bound
            op = mvccprog.op_strategy(nc, weights)
            nm = st.sampled_from(mvccprog.PLAIN)
            tight = st.tuples(st.lists(op, max_size=4), nm, nm, st.booleans(), st.lists(op, max_size=6)).map(
                lambda t: t[0] + [['stall', 0], ['write', 0, t[1]], ['commit', 0], ['begin', 1]]
                + ([['minimize', 1]] if t[3] else []) + [['write', 0, t[2]], ['commit', 0], ['read', 1, t[2]], ['readall', 1], ['stall', 0]] + t[4])
            return st.one_of(free, free.map(list), free.map(tuple).map(list), tight)
        # the shape C03 is about: two transactions that overlap on an object; the loser has already handed
        # other records to the storage when the conflict is found; then the world goes on
        op = mvccprog.op_strategy(nc, weights)
        pool = mvccprog.PLAIN + mvccprog.COUNTERS + [mvccprog.ROOT]
        x, y = st.sampled_from(pool), st.sampled_from(pool)

        def w(c, nme, k):
            return ['inc', c, nme, k] if nme in mvccprog.COUNTERS else ['write', c, nme]
        phased = st.tuples(st.lists(op, max_size=4), x, y, st.integers(1, 3), st.booleans(), st.lists(op, min_size=2, max_size=10)).map(
            lambda t: t[0] + [['begin', 0], ['begin', 1], w(0, t[1], t[3])] + ([w(1, t[2], t[3])] if t[4] else [])
            + [w(1, t[1], t[3]), ['commit', 0], ['commit', 1]] + t[5])
        # ... and its readCurrent form: a transaction that declares it depends on X being current (without
        # writing X), writes something else, optionally takes a savepoint; another one changes X first
        phased_rc = st.tuples(st.lists(op, max_size=4), x, y, st.integers(1, 3), st.booleans(), st.booleans(),
                              st.lists(op, min_size=2, max_size=8)).map(
            lambda t: t[0] + [['begin', 0], ['begin', 1], ['readcurrent', 0, t[1]]]
            + ([w(0, t[2], t[3])] if t[2] != t[1] else [w(0, [n for n in mvccprog.PLAIN if n != t[1]][0], t[3])])
            + ([['savepoint', 0]] if t[4] else []) + ([['readcurrent', 0, t[1]]] if t[5] else [])
            + [w(1, t[1], t[3]), ['commit', 1], ['commit', 0]] + t[6])
        # ... and after savepoints: the loser has saved two objects, conflicts on one, and goes on using the other
        phased_sp = st.tuples(st.lists(op, max_size=3), x, y, st.integers(1, 3), st.lists(op, min_size=1, max_size=6)).map(
            lambda t: t[0] + [['begin', 0], ['begin', 1], w(0, t[1], t[3])]
            + [w(0, t[2] if t[2] != t[1] else [n for n in mvccprog.PLAIN if n != t[1]][0], t[3]), ['savepoint', 0], w(1, t[1], t[3]), ['commit', 1],
               ['commit', 0], ['readall', 0], ['read', 0, mvccprog.ROOT]]
            + [w(0, t[2] if t[2] != t[1] else [n for n in mvccprog.PLAIN if n != t[1]][0], t[3]), ['commit', 0]] + t[4])
        # ... a declared dependency on X, a change of X that is thrown away again, another object written
        phased_dc = st.tuples(st.lists(op, max_size=3), st.sampled_from(mvccprog.PLAIN), st.sampled_from(mvccprog.PLAIN), st.booleans(),
                              st.lists(op, min_size=1, max_size=6)).map(
            lambda t: t[0] + [['begin', 0], ['begin', 1], ['readcurrent', 0, t[1]]] + ([['write', 0, t[1]], ['discard', 0, t[1]]] if t[3] else [['write', 0, t[1]], ['readcurrent', 0, t[1]], ['discard', 0, t[1]]])
            + [['write', 0, [n for n in mvccprog.PLAIN if n != t[1]][0]], ['write', 1, t[1]], ['commit', 1], ['commit', 0]] + t[4])
        return st.one_of(free, free.map(list), phased, phased_rc, phased_sp, phased_dc)
    return st.integers(2, 3).flatmap(lambda nc: st.fixed_dictionaries({
        'kind': st.sampled_from(['fs', 'fs', 'mapping', 'demo', 'demo-fs']),
        'nconn': st.just(nc), 'pool': st.sampled_from([1, 2, 7]),
        'ops': ops(nc)}))


def run(case, prop):
    out = Outcome()
    out.evals = 0
    clock.install()
    from vlib import sched
    sched.install()
    clock.reset()
    d = newdir()
    w = mvccprog.MWorld(case['kind'], d, out, prop, case['nconn'], case['pool'])
    try:
        for op in case['ops']:
            w.step(op)
            if not w.stalled:
                clock.CLOCK.advance(0.5)
            out.evals += 1
            if out.failures:
                break
        if not out.failures:
            w.check_history()
    finally:
        w.close()
    out.label(case['kind'], *w.labels)
    return out, w


def execute(case):
    if case.get('mode') == 'threads':
        from vlib import threadprog
        return run_threads(case, PROPERTY, [threadprog.snapshot_oracle, threadprog.history_oracle])
    out, w = run(case, PROPERTY)
    out.nontrivial = w.stale_reads > 0
    return out


LEVEL_TEXT = ('Multi-connection programs are executed with a generated interleaving and compared read-by-read with an exact '
              'snapshot model; covers cache hits, storage loads after minimize, pooled connections reused after close, and '
              'implicit/explicit boundaries on file, mapping and demo storages. Thread programs run under a deterministic '
              'scheduler with generated schedules; every read is judged against the connection\'s snapshot bound and the final history.')
LEVEL_NOTE = ('Trusted: vlib/mvccprog model (sequential cases); vlib/sched.py scheduler and the event-log oracles of vlib/threadprog.py '
              '(thread cases). Schedules are sampled, not enumerated: 2-4 threads, programs of 2-8 operations, preemption at lock, '
              'file-operation and (watched functions) line granularity.')
