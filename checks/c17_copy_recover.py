"""C17 — copying or recovering a storage reproduces its full history."""
import contextlib
import io
import os
import struct

from hypothesis import strategies as st

from vlib import clock, locks, programs, rawio
from vlib.driver import Outcome, newdir
from vlib.model import diff_obs, fmt_answer, observe, scan_universe

PROPERTY = 'C17'
LEVEL = 'exploration'
TECH = ('differential PBT: generated source histories copied (copyTransactionsFrom) / recovered (fsrecover) and compared '
        'query-by-query with the source; generated damage (position, length, kind) with bounded-read termination oracle')
RULE = ('cases = generated source history (undo records, deletions, un-creations, restores, packed prefix, boundary '
        'sizes) on file/mapping/demo storages; mode copy: FileStorage.copyTransactionsFrom(source) then full battery '
        'source vs destination; mode recover: fsrecover.recover on the undamaged file, same comparison; mode damage: a '
        'generated region (any position after the magic, length 1..4096, zero/random/truncate) is damaged, recover must '
        'terminate within 200 + 50*file_size/8096 raw reads, contain every transaction that ends before the damage '
        'unchanged, and output only input transactions in input order with increasing tids; evaluations = storages '
        'compared; non-trivial = (copy/recover) source with >= 1 back-pointer record or un-creation, (damage) damage '
        'starting inside the 2nd..last transaction with >= 1 transaction after it, (blobcopy: a generated blob history '
        '(C13 blob world) on FileStorage+blob_dir or BlobStorage(MappingStorage) copied into a FileStorage with blob_dir; records compared, '
        'every blob revision read through loadBlob on both sides, one file per blob record, no temporary files) a '
        'rewritten blob plus an undo or pack; distinct by case hash')
ASSUMPTIONS = ['blob sources are copied (mode blobcopy); fsrecover has no blob handling and is run on data files only',
               'a transaction overlapping the damaged region may be dropped or altered (don\'t care)',
               'termination is decided by a raw-read budget, never by time']
BUDGET = {'quick': {'examples': 5000, 'workers': 8},
          'thorough': {'examples': 30000, 'workers': 16}}
CAPS_FS = programs.CAPS['fs']


def strategy(tier):
    n = 8 if tier == 'quick' else 14

    def build(mode):
        if mode == 'copy':
            kinds = ['fs', 'fs', 'mapping', 'demo', 'demo-fs']
        else:
            kinds = ['fs']

        def prog(kind):
            allow = {'stale'}
            if kind == 'fs':
                allow |= {'del', 'undo', 'restore', 'reopen'}
                if mode != 'damage':
                    allow |= {'pack'}
            if kind == 'demo-fs':
                allow |= {'undo'}
            free = programs.program_strategy(kind, n, allow)
            if kind == 'fs':
                # undo records pointing into a transaction that undoes several transactions of one
                # object (two records of that object in one transaction)
                upd = st.tuples(st.just('txn'), st.just([0, 0, 0]),
                                st.lists(st.tuples(st.just('upd'), st.integers(0, 1), st.sampled_from([0, 1, 5])).map(list),
                                         min_size=1, max_size=2), st.just(['finish'])).map(list)
                multi = st.tuples(st.just('txn'), st.just([0, 1, 0]),
                                  st.lists(st.tuples(st.just('undo'), st.integers(0, 3)).map(list), min_size=2, max_size=3),
                                  st.just(['finish'])).map(list)
                single = st.tuples(st.just('txn'), st.just([0, 2, 0]),
                                   st.lists(st.tuples(st.just('undo'), st.integers(0, 1)).map(list), min_size=1, max_size=1),
                                   st.just(['finish'])).map(list)
                new = st.just(['txn', [0, 0, 0], [['new', 1], ['new', 5]], ['finish']])
                phased = st.tuples(new, upd, upd, st.one_of(upd, multi), multi, st.one_of(upd, single), single,
                                   st.lists(st.one_of(upd, single, multi), max_size=3)).map(
                    lambda t: [t[0], t[1], t[2], t[3], t[4], t[5], t[6]] + t[7])
                free = st.one_of(free, free, phased)
            return st.fixed_dictionaries({
                'mode': st.just(mode), 'kind': st.just(kind),
                'prog': free,
                'dpos': st.integers(0, 10 ** 6), 'dlen': st.sampled_from([1, 2, 7, 8, 9, 23, 40, 100, 1000, 4096]),
                'dkind': st.sampled_from(['zero', 'random', 'truncate', 'truncate']),
                'dbyte': st.integers(0, 255),
                'tailcut': st.integers(0, 14),
                'range': st.tuples(st.integers(0, 8), st.integers(0, 8)).map(list),
                # the source is copied while it has a transaction between vote and finish
                'inflight': st.booleans(),
            })
        return st.sampled_from(kinds).flatmap(prog)
    plain = st.sampled_from(['copy', 'copy', 'recover', 'damage', 'damage', 'damage']).flatmap(build)
    return st.one_of(plain, plain, plain, plain, blob_strategy(tier))


def blob_strategy(tier):
    """blob histories (C13's blob world: rewrite, append, consume, undo, pack, failed commits) copied into
    another blob-enabled storage"""
    from checks import c13_blobs
    free = c13_blobs.strategy(tier).map(lambda c: c['ops'])
    i = st.integers(0, 1)
    dd = st.integers(0, len(c13_blobs.DATA) - 1)
    wr = st.tuples(st.just('write'), i, st.sampled_from(['w', 'a', 'r+']), dd).map(list)
    # the shapes the statement names: undo (and redo) of a blob rewrite, optionally packed afterwards
    phased = st.tuples(wr, st.lists(wr, max_size=1), st.integers(0, 1), st.booleans(), st.lists(wr, max_size=1),
                       st.one_of(st.just([]), st.tuples(st.just('pack'), st.integers(0, 8)).map(lambda p: [list(p)])),
                       free).map(
        lambda t: [t[0], ['commit']] + (t[1] + [['commit']] if t[1] else []) + [['undo', t[2]]]
        + ([['undo', 0]] if t[3] else []) + (t[4] + [['commit']] if t[4] else []) + t[5] + t[6][:4])
    return st.fixed_dictionaries({'mode': st.just('blobcopy'),
                                  'src': st.sampled_from(['fs', 'fs', 'bmap']),
                                  'dst': st.just('fs'),     # MappingStorage has no restore()
                                  'ops': st.one_of(free, phased)})


def blob_revisions(storage):
    """{(oid, tid): bytes} for every blob record the storage iterates"""
    from ZODB.blob import is_blob_record
    out = {}
    for t in storage.iterator():
        for r in t:
            if r.data and is_blob_record(r.data):
                try:
                    with open(storage.loadBlob(r.oid, t.tid), 'rb') as f:
                        out[(r.oid, t.tid)] = f.read()
                except Exception as e:    # noqa: B902  the answer is compared
                    out[(r.oid, t.tid)] = 'raises %s' % type(e).__name__
    return out


def execute_blobcopy(case):
    from checks import c13_blobs
    from ZODB.blob import BlobStorage
    from ZODB.FileStorage import FileStorage
    from ZODB.MappingStorage import MappingStorage
    out = Outcome()
    out.evals = 0
    clock.install()
    locks.install()
    clock.reset()
    d = newdir()
    w = c13_blobs.BlobWorld(case['src'], d, out, prop=PROPERTY)
    try:
        for op in (['create', 0, 2], ['create', 1, 3], ['commit']):
            w.step(op)
        for op in case['ops']:
            w.step(op)
            clock.CLOCK.advance(0.25)
            if out.failures:
                # a blob-world failure belongs to C13; this case only judges the copy
                out.failures = []
                break
        try:
            w.tm.abort()
        except Exception:                 # noqa: B902
            pass
        dd = os.path.join(d, 'copy')
        os.mkdir(dd)
        if case['dst'] == 'fs':
            dst = FileStorage(os.path.join(dd, 'Copy.fs'), blob_dir=os.path.join(dd, 'blobs'))
        else:
            dst = BlobStorage(os.path.join(dd, 'blobs'), MappingStorage())
        try:
            dst.copyTransactionsFrom(w.storage)
            what = 'copyTransactionsFrom(blob %s -> %s)' % (case['src'], case['dst'])
            caps = {'history', 'loadSerial', 'iterator'}
            compare(w.storage, dst, caps, out, what, getattr(w, 'pack_tid', None))
            if out.failures:
                return out
            a, b = blob_revisions(w.storage), blob_revisions(dst)
            out.evals += 1
            if a != b:
                k = sorted(set(a) | set(b), key=lambda k: (k[1], k[0]))
                k = [x for x in k if a.get(x) != b.get(x)][0]
                out.fail((PROPERTY, 'blob-copy', 'blob-contents-differ'),
                         '%s: blob revision oid=%s tid=%s: source %r destination %r' % (
                             what, k[0].hex(), k[1].hex(), a.get(k, 'absent'), b.get(k, 'absent')))
                return out
            # exactly one committed file per blob record in the copy, nothing else
            files = c13_blobs.list_blob_files(os.path.join(dd, 'blobs'))
            if len(files) != len(b):
                out.fail((PROPERTY, 'blob-copy', 'file-count'),
                         '%s: the copy holds %d blob files for %d blob records' % (what, len(files), len(b)))
            left = c13_blobs.tmp_leftovers(os.path.join(dd, 'blobs'))
            if left:
                out.fail((PROPERTY, 'blob-copy', 'tmp-leftover'), '%s: temporary files left in the copy: %r' % (what, left))
        finally:
            dst.close()
    finally:
        w.close()
    out.label('blobcopy', 'blob-' + case['src'] + '->' + case['dst'], *['blob-' + x for x in w.labels & {'undo', 'pack', 'pack-removed-blob-file'}])
    out.nontrivial = w.rewritten and bool(w.labels & {'undo', 'pack'})
    return out


def parse_layout(data):
    """independent walk over the transaction records: [(tid, start, end, {oid: data stored inline?})]"""
    out = []
    pos = 4
    while pos + 23 <= len(data):
        tid, tl, status, ul, dl, el = struct.unpack('>8sQcHHH', data[pos:pos + 23])
        if pos + tl + 8 > len(data):
            break
        inline = {}
        rp = pos + 23 + ul + dl + el
        tend = pos + tl
        while rp + 42 <= tend:
            oid, rtid, prev, tloc, vlen, plen = struct.unpack('>8s8sQQHQ', data[rp:rp + 42])
            # True: the record holds its pickle; otherwise the position its back-pointer names (0: un-creation)
            inline[oid] = True if plen > 0 else ('back', struct.unpack('>Q', data[rp + 42:rp + 50])[0])
            rp += 42 + (plen or 8)
        out.append((tid, pos, pos + tl + 8, inline))
        pos += tl + 8
    return out


def compare(src, dst, caps, out, what, packed_upto=None):
    oids, tids = scan_universe(src)
    a = observe(src, oids, tids, caps)
    b = observe(dst, oids, tids, caps)
    if packed_upto is not None:
        # a packed source keeps some records of the packed region only as targets of later back-pointers:
        # it iterates them but does not answer revision queries with them, the copy (which re-links
        # them) does.  Revision queries into the packed region are pack's don't-care area (C07).
        for k in list(a):
            # (and the live packed source may still name a dropped trailing transaction as its last one)
            if (k[0] in ('loadBefore', 'loadSerial') and k[2] <= packed_upto) or k[0] in ('history', 'lastTransaction'):
                a.pop(k)
                b.pop(k, None)
    out.evals += 1
    df = diff_obs(a, b)
    if df:
        out.fail((PROPERTY, what, 'differs', df[0][0]),
                 '%s: %s -> destination %s ; source %s' % (what, fmt_answer(df[0]), fmt_answer(df[2]), fmt_answer(df[1])))


def execute(case):
    try:
        if case['mode'] == 'blobcopy':
            return execute_blobcopy(case)
        return _execute(case)
    finally:
        rawio.stop()


def _execute(case):
    from ZODB.FileStorage import FileStorage
    out = Outcome()
    out.evals = 0
    clock.install()
    locks.install()
    clock.reset()
    d = newdir()
    kind, mode = case['kind'], case['mode']
    r = programs.StorageRunner(kind, d, out, PROPERTY)
    r.count_queries = False
    try:
        r.run(case['prog'], check_each=False)
        if out.failures:
            return out
        out.label(mode, kind, *r.labels)
        out.nontrivial = bool(r.labels & {'undo', 'restore-backpointer', 'restore-uncreate', 'delete',
                                          'undo-of-creation'})
        if mode == 'copy':
            if r.packed and kind == 'fs':
                # after a pack the live storage may still report a dropped empty transaction as its
                # last one; the reference is what the data file says
                r.reopen(True)
            caps = CAPS_FS if kind == 'fs' else {'history', 'loadSerial', 'iterator'}
            d2 = newdir()
            dst = FileStorage(os.path.join(d2, 'Copy.fs'))
            try:
                voted = None
                if case.get('inflight') and kind == 'fs':
                    from ZODB.Connection import TransactionMetaData
                    from vlib.records import make_record
                    voted = TransactionMetaData(user='v', description='voted, not finished, while the copy runs')
                    r.storage.tpc_begin(voted)
                    r.storage.store(r.storage.new_oid(), b'\0' * 8, make_record(990, [], 30), '', voted)
                    r.storage.tpc_vote(voted)
                    out.label('source-has-voted-transaction')
                try:
                    dst.copyTransactionsFrom(r.storage)
                finally:
                    if voted is not None:
                        r.storage.tpc_abort(voted)
                compare(r.storage, dst, caps - {'len-exact'}, out, 'copyTransactionsFrom(%s)' % kind)
                if out.failures:
                    return out
                # copy of a range through a manually created iterator (documented use)
                tids = r.model.tids()
                if kind == 'fs' and tids and not r.packed:
                    a, b = sorted(x % len(tids) for x in case['range'])
                    d3 = newdir()
                    part = FileStorage(os.path.join(d3, 'Part.fs'))
                    try:
                        it = r.storage.iterator(tids[a], tids[b])
                        part.copyTransactionsFrom(it)
                        got = [t.tid for t in part.iterator()]
                        out.evals += 1
                        if got != tids[a:b + 1]:
                            out.fail((PROPERTY, 'copy-range', 'wrong-transactions'),
                                     'copy of iterator(%r, %r) holds %r expected %r' % (tids[a], tids[b], got, tids[a:b + 1]))
                        out.label('copy-range')
                    finally:
                        part.close()
            finally:
                dst.close()
            return out
    finally:
        r.close()

    # ---- recover
    import ZODB.fsrecover
    src_path = os.path.join(d, 'Data.fs')
    with open(src_path, 'rb') as f:
        original = f.read()
    layout = parse_layout(original)
    if mode == 'recover':
        d2 = newdir()
        outp = os.path.join(d2, 'Recovered.fs')
        run_recover(src_path, outp, out, len(original))
        if out.failures:
            return out
        src = FileStorage(src_path, read_only=True)
        dst = FileStorage(outp, read_only=True)
        try:
            compare(src, dst, CAPS_FS - {'len-exact', 'record_iternext'}, out, 'fsrecover(undamaged)')
        finally:
            src.close()
            dst.close()
        return out

    # ---- damage
    if len(original) <= 5:
        return out
    damaged = bytearray(original)
    if case['dkind'] == 'truncate' and case['tailcut']:
        start = max(5, len(original) - case['tailcut'])     # the last few bytes (trailing length region)
    else:
        start = 4 + case['dpos'] % (len(original) - 4)
    if case['dkind'] == 'truncate':
        del damaged[start:]
        end = len(original)
    else:
        end = min(len(original), start + case['dlen'])
        for i in range(start, end):
            damaged[i] = 0 if case['dkind'] == 'zero' else (case['dbyte'] + i * 37) & 0xff
    if bytes(damaged) == original:
        return out
    d2 = newdir()
    dpath = os.path.join(d2, 'Damaged.fs')
    with open(dpath, 'wb') as f:
        f.write(damaged)
    outp = os.path.join(d2, 'Recovered.fs')
    out.label('damage-' + case['dkind'])
    before = [t for t in layout if t[2] <= start]
    overlapping = [t for t in layout if t[1] < end and t[2] > start]
    after = [t for t in layout if t[1] >= end]
    if len(before) >= 1 and after and overlapping:
        out.nontrivial = True
    else:
        out.nontrivial = False
    run_recover(dpath, outp, out, len(damaged))
    out.evals += 1
    if out.failures:
        return out
    if not os.path.exists(outp):
        out.fail((PROPERTY, 'recover-damaged', 'no-output'), 'recover produced no output file')
        return out
    # expected content of undamaged transactions, from the original file
    src = FileStorage(src_path, read_only=True)
    dst = FileStorage(outp, read_only=True)
    try:
        from vlib.model import q_iterator
        orig = {t[0]: t for t in q_iterator(src)[1]}
        got = list(q_iterator(dst)[1])
        order = [t[0] for t in layout]
        clean = {t[0] for t in before + after}
        last = None
        last_idx = -1
        unexplained = 0
        for t in got:
            tid = t[0]
            if last is not None and tid <= last:
                out.fail((PROPERTY, 'recover-damaged', 'tids-not-increasing'), '%r after %r' % (tid, last))
                break
            last = tid
            if tid not in orig:
                unexplained += 1
                continue
            idx = order.index(tid)
            if idx <= last_idx:
                out.fail((PROPERTY, 'recover-damaged', 'order-changed'), 'transaction %r out of input order' % tid)
                break
            last_idx = idx
            if tid in clean:
                exp = orig[tid]
                # data reached through a back-pointer may live in the damaged region: "as in the input"
                inline = [x for x in layout if x[0] == tid][0][3]

                def norm(txn):
                    return txn[:5] + (tuple((oid, data if inline.get(oid) is True or inline.get(oid) == ('back', 0)
                                             else '<via back-pointer>') for oid, data in txn[5]),)
                # ... but only through a target that is still recognisable as a record of that object: the record a
                # back-pointer names is accepted after its oid has been checked (otherwise the transaction is skipped)
                through_ruins = [oid for oid, v in inline.items() if v is not True and v[1] and
                                 bytes(damaged[v[1]:v[1] + 8]) != oid]
                if through_ruins:
                    out.fail((PROPERTY, 'recover-damaged', 'record-through-destroyed-back-pointer-target'),
                             'output transaction %r holds a record of %r whose back-pointer names position %d, where the damaged '
                             'input no longer has a record of that object: %s' % (
                                 tid, through_ruins[0], inline[through_ruins[0]][1], fmt_answer(t)))
                    break
                if norm(t) != norm(exp):
                    out.fail((PROPERTY, 'recover-damaged', 'transaction-altered'),
                             'undamaged transaction %r differs in the output: %s ; input %s' % (
                                 tid, fmt_answer(t), fmt_answer(exp)))
                    break
        if unexplained > len(overlapping):
            out.fail((PROPERTY, 'recover-damaged', 'invented-transactions'),
                     '%d output transactions carry ids not in the input (only %d input transactions overlap the damage)'
                     % (unexplained, len(overlapping)))
        have = {t[0] for t in got}
        missing = [t[0] for t in before if t[0] not in have]
        if missing and not out.failures:
            out.fail((PROPERTY, 'recover-damaged', 'lost-transaction-before-damage'),
                     'damage starts at byte %d; transaction(s) %r end before it but are missing from the output'
                     % (start, missing[:3]))
    finally:
        src.close()
        dst.close()
    return out


def run_recover(inp, outp, out, size):
    import ZODB.fsrecover
    rec = rawio.start(watch=lambda p: p == os.path.abspath(inp))
    rec.read_budget = 200 + 50 * (size // 8096 + 1)
    buf = io.StringIO()
    try:
        with contextlib.redirect_stdout(buf), contextlib.redirect_stderr(buf):
            ZODB.fsrecover.recover(inp, outp, verbose=0, partial=False, force=False, pack=None)
    except rawio.ReadBudgetExceeded:
        out.fail((PROPERTY, 'recover', 'does-not-terminate'),
                 'fsrecover.recover exceeded %d raw reads on a %d-byte input (endless scan)' % (rec.read_budget, size))
    except SystemExit:
        out.label('recover-died')
    finally:
        rawio.stop()
        # a non-terminating recover leaves its output storage open: release the lock file
        import gc
        gc.collect()


LEVEL_TEXT = ('Generated source histories on every storage offering iterator() are copied into a FileStorage, recovered '
              'with fsrecover (undamaged) and recovered after generated damage; destinations are compared with the '
              'source by the full query battery, damaged runs by prefix-completeness, subset, order and a deterministic '
              'termination bound.')
LEVEL_NOTE = ('Trusted: the source storage as reference (its correctness is C04), an independent 10-line layout parser for '
              'transaction byte ranges, the raw-read counter. Blob histories come from the blob world of C13 and are copied into a FileStorage with blob directory (the only restorable blob destination); fsrecover does not handle blobs.')
