"""C08 — packing is safe under a crash at any point, and a pack that cannot complete changes nothing.
A third of the cases run a packer thread among committer/reader threads under the deterministic scheduler."""
import hashlib
import os

from hypothesis import strategies as st

from checks import c07_pack
from vlib import clock, locks, rawio
from vlib.driver import Outcome, newdir

PROPERTY = 'C08'
LEVEL = 'fault_enumeration'
TECH = ('crash-point and fault-point enumeration over the recorded file operations of pack (writes, renames, removals on data/.pack/'
        '.old/.index files) for generated histories; reopen / continue and compare with an unpacked twin; generated packer+committer+reader '
        'threads x generated schedules under a deterministic scheduler with history oracles')
RULE = ('a case = generated graph history (as C07) + pack time + gc + mode; mode crash: every prefix of the file operations the pack '
        'issued on Data.fs, .pack, .old, .index, .index_tmp (renames/removals single points, sampled torn cuts of .pack writes) '
        'is materialised as a directory and reopened read-write; oracle: opening succeeds and the protected region of C07 equals '
        'the unpacked twin (i.e. the state is equivalent to the unpacked or the packed database with every returned commit), and a '
        'further transaction commits; mode fault: each file operation of the pack fails in turn (OSError): pack must raise, the '
        'full battery equals the history model (unchanged), the commit lock is free, the next transaction and the next pack work; '
        'a second pack while one is marked in progress is refused; evaluations = crash images + fault points; non-trivial = crash '
        'image taken after the first .pack write / fault after >= 1 copied transaction; mode threads (1/3 of the cases): a packer '
        'thread (pack time now, or 0.5/1.5 s back), optionally a second packer, and 1-3 committer/reader/undoer threads (undo of '
        'write transactions committed during the run) on one FileStorage '
        'with superseded revisions, scheduled by vlib/sched.py (yield points: lock operations, file operations, optionally every '
        'line of pack/copyOne/copyRest/tpc_vote/tpc_finish); oracle: no deadlock, no exception other than ConflictError, every '
        'commit that returned is in the storage and in the reopened packed file unless its revisions were superseded not later '
        'than the pack time, derived-from chain intact, readers saw consistent snapshots, the second pack is refused or '
        'completes; non-trivial thread case = a commit returned between pack start and pack end; distinct by (directory image '
        'hash | case hash, fault index); later additions: catch-up and swap-moment schedule strategies, readers asking the storage directly (getTid/history/loadSerial/lastTransaction/undoLog), packs without keeping the old file')
ASSUMPTIONS = ['crash model: prefix of the recorded operations across the five files in issue order; renames/removes atomic',
               'thread cases: preemption only at the scheduler\'s yield points (ZODB lock/condition operations, storage file '
               'operations, lines of the watched pack/commit/undo functions); schedules are sampled']
BUDGET = {'quick': {'examples': 4000, 'workers': 8},
          'thorough': {'examples': 30000, 'workers': 16}}


def thread_strategy():
    from vlib import threadprog
    roles = st.sampled_from(['committer', 'committer', 'committer', 'reader', 'undoer'])
    return st.fixed_dictionaries({
        'mode': st.just('threads'),
        'programs': st.lists(roles.flatmap(lambda r: st.tuples(st.just(r), threadprog.program_strategy(r)).map(list)),
                             min_size=1, max_size=3),
        'schedule': threadprog.SCHEDULE,
        'second_packer': st.sampled_from([False, False, True]),
        'pack_back': st.sampled_from([0.0, 0.0, 0.5, 1.5]),
        'lines': st.booleans(),
        'warm': st.booleans(),
    })


def catchup_strategy():
    """the catch-up phase of a pack at file-operation granularity: the packer copies a transaction larger than a file
    buffer that lies after the pack time, gives the commit lock away; a committer gets in (segment 1: after the n-th
    release of a storage lock), runs for n2 file operations, the packer for n3, then the committer again ..."""
    from vlib import threadprog
    seg = st.tuples(st.tuples(st.just('release:FileStorage'), st.integers(1, 10), st.just(0)).map(list),
                    st.lists(st.tuples(st.just('file'), st.integers(1, 30), st.just(0)).map(list), min_size=2, max_size=4)).map(
        lambda t: [t[0]] + t[1])
    return st.fixed_dictionaries({
        'mode': st.just('threads'),
        'programs': st.tuples(st.sampled_from(threadprog.PLAIN)).map(lambda t: [['committer', [['write', t[0]], ['commit']]]]),
        'schedule': seg.map(lambda sg: {'segments': sg}),
        'second_packer': st.just(False), 'pack_back': st.just(1.5), 'lines': st.just(False), 'warm': st.booleans(),
        'big_prehistory': st.just(True),
    })


def swap_strategy():
    """the moment the pack puts the packed file in place: a reader with a warm cache asks the storage directly (history,
    getTid, loadSerial, ... - the read paths that use the storage's own file handle under the storage lock, not the
    pooled handles) after the m-th yield point that follows the packer's entry into the pool's write lock"""
    from vlib import threadprog
    probes = st.lists(st.tuples(st.just('probe'), st.sampled_from(threadprog.NAMES), st.integers(0, 4)).map(list),
                      min_size=1, max_size=3)
    return st.fixed_dictionaries({
        'mode': st.just('threads'),
        'programs': probes.map(lambda p: [['reader', p]]),
        'schedule': st.tuples(st.integers(1, 2), st.integers(1, 16)).map(
            lambda t: {'segments': [['release:FilePool', t[0], 0], ['any', 1, 0], ['any', t[1], 0]]}),
        'second_packer': st.just(False), 'pack_back': st.sampled_from([0.0, 0.5, 1.5]), 'lines': st.just(False),
        'warm': st.just(True),
    })


def execute_threads(case):
    """one packer with committers and readers under the deterministic scheduler"""
    import sys
    from ZODB.FileStorage import FileStorage
    from ZODB.FileStorage.fspack import FileStoragePacker
    from ZODB.POSException import ConflictError
    from vlib import threadprog
    out = Outcome()
    clock.install()
    clock.reset()
    d = newdir()
    tr = threadprog.ThreadRun('fs', d, prehistory=2, warm=case.get('warm', True), big_prehistory=case.get('big_prehistory', False))
    try:
        threads = [('packer', tr.packer('packer', case['pack_back']))]
        if case['second_packer']:
            threads.append(('packer2', tr.packer('packer2', case['pack_back'])))
        for i, (role, prog) in enumerate(case['programs']):
            threads.append(('%s%d' % (role[0], i), tr.body('%s%d' % (role[0], i), prog, role)))
        FS = sys.modules['ZODB.FileStorage.FileStorage'].FileStorage
        funcs = [FS.pack, FileStoragePacker.pack, FileStoragePacker.copyOne, FileStoragePacker.copyRest,
                 FS.tpc_finish, FS._finish_finish, FS.tpc_vote, FS.undo, FS._txn_undo_write] if case.get('lines') else ()
        s = tr.run(threads, case['schedule'], funcs)
        out.evals = max(1, s.steps)
        out.label('threads')
        ev = [k for _, _, k, _ in tr.events]
        if 'pack-ok' in ev:
            out.label('threads-pack-completed')
        if ev.count('pack-refused'):
            out.label('threads-second-pack-refused')
        if 'undo-ok' in ev:
            out.label('threads-undo-committed')
        if 'undo-refused' in ev:
            out.label('threads-undo-refused')
        pack_ticks = [t for t, _, k, _ in tr.events if k in ('pack-start', 'pack-ok')]
        during = [1 for t, _, k, d_ in tr.events if k in ('commit-ok', 'undo-ok') and d_[0] and pack_ticks and min(pack_ticks) < t < max(pack_ticks)]
        if any(1 for t, _, k, d_ in tr.events if k == 'undo-ok' and pack_ticks and min(pack_ticks) < t < max(pack_ticks)):
            out.label('threads-undo-committed-during-pack')
        if during:
            out.label('threads-commit-returned-during-pack')
        threadprog.tolerate_pack_failed_by_undo(s, tr, out)
        if not threadprog.thread_problems(s, out, PROPERTY, allowed=(ConflictError,)):
            threadprog.history_oracle(tr, out, PROPERTY)
            if not out.failures:
                threadprog.snapshot_oracle(tr, out, PROPERTY)
            if not out.failures:
                threadprog.final_reads_oracle(tr, out, PROPERTY)
            if not out.failures:
                # whatever happened, the storage is usable: the commit lock is free, no pack is marked in
                # progress, a transaction commits and a pack runs  (a pack that failed with a non-I/O error
                # leaves its .pack file behind; the next pack overwrites it - junk, not a changed database)
                import transaction
                st_ = tr.db.storage
                if os.path.exists(st_._file_name + '.pack'):
                    out.label('threads-pack-file-left-by-failed-pack')
                if st_._commit_lock.locked() or st_._pack_is_in_progress:
                    out.fail((PROPERTY, 'threads', 'left-over-after-pack'),
                             'after all threads ended: commit lock held=%r, pack in progress=%r' % (
                                 st_._commit_lock.locked(), st_._pack_is_in_progress))
                else:
                    tm = transaction.TransactionManager()
                    c = tr.db.open(tm)
                    c.root()['after'] = 1
                    tm.commit()
                    c.close()
                    clock.CLOCK.advance(1.0)
                    tr.log('main', 'pack-start', clock.CLOCK.now - 0.5)
                    tr.db.pack(clock.CLOCK.now - 0.5)
            if not out.failures:
                # the same after reopening the packed file
                returned = [(d_[0], d_[1]) for _, _, k, d_ in tr.events if k == 'commit-ok' and d_[0]]
                path = tr.db.storage._file_name
                revs = tr.history()
                tr.db.close()
                fs = FileStorage(path, read_only=True)
                try:
                    have = {t.tid for t in fs.iterator()}
                finally:
                    fs.close()
                for tid, wrote in returned:
                    if tid not in have and not all(tr.droppable(revs, nme, tid) for nme in wrote):
                        out.fail((PROPERTY, 'threads', 'returned-commit-missing-after-reopen'),
                                 'the commit %r (%r) returned but is not in the reopened file' % (tid, wrote))
                        break
        out.nontrivial = bool(during)
    finally:
        tr.close()
    return out


def strategy(tier):
    return st.integers(0, 99).flatmap(lambda w: _enum_strategy(tier) if w < 48 else thread_strategy() if w < 72
                                      else catchup_strategy() if w < 92 else swap_strategy())


def _enum_strategy(tier):
    base = c07_pack.graph_strategy(tier)

    def fix(case):
        prog = [op for op in case['prog'] if op[0] != 'pack']
        return prog
    return st.fixed_dictionaries({
        'prog': base.map(fix),
        'pack_k': st.sampled_from([0, 0, 1, 1, 2, 3, 5]),
        'gc': st.booleans(),
        'mode': st.sampled_from(['crash', 'crash', 'fault']),
        'prepack': st.booleans(),
        # the storage does not keep the old file after the pack (one more removal at the end of the sequence)
        'nokeep': st.sampled_from([False, False, True]),
        'cuts': st.lists(st.integers(1, 5000), min_size=1, max_size=3),
        'after': st.lists(st.tuples(st.just('gtxn'), st.lists(st.tuples(st.just('upd'), st.integers(0, 9)).map(list), min_size=1, max_size=2)).map(list), max_size=2),
    })


def build(case, out, faults=()):
    """run the history on a packing storage A (recorded) and its unpacked twin B"""
    clock.reset()
    da, db_ = newdir(), newdir()
    datafs = os.path.join(da, 'Data.fs')
    rec = rawio.start(watch=lambda p: p.startswith(datafs) and not p.endswith(('.lock', '.tmp')))
    A = c07_pack.GraphRunner('fs', da, out, PROPERTY)
    rec.enabled = False
    B = c07_pack.GraphRunner('fs', db_, out, PROPERTY)
    rec.enabled = True
    for r in (A, B):
        r.count_queries = False
        r.ucaps = {'undo'}
    t0 = clock.CLOCK.now
    A.init_root()
    rec.enabled = False
    clock.CLOCK.now = t0
    B.init_root()
    rec.enabled = True
    for op in case['prog']:
        k = op[0]
        t0 = clock.CLOCK.now
        for r in (A, B):
            rec.enabled = r is A
            clock.CLOCK.now = t0
            if k == 'gtxn':
                r.gtxn(op[1])
            elif k == 'gundo':
                r.gundo(op[1])
            elif k == 'reopen':
                r.reopen(op[1])
        rec.enabled = True
    return A, B, rec, da


def snapshot_dir(d):
    files = {}
    for f in os.listdir(d):
        if f.startswith('Data.fs') and not f.endswith(('.lock', '.tmp')):
            with open(os.path.join(d, f), 'rb') as fh:
                files[os.path.join(d, f)] = bytearray(fh.read())
    return files


def execute(case):
    try:
        return _execute(case)
    finally:
        rawio.stop()


def _execute(case):
    if case.get('mode') == 'threads':
        return execute_threads(case)
    from ZODB.FileStorage import FileStorage
    from ZODB.serialize import referencesf
    out = Outcome()
    out.evals = 0
    clock.install()
    from vlib import sched
    sched.install()
    A, B, rec, da = build(case, out)
    nt = []
    try:
        if out.failures or len(A.model.tids()) < 2:
            return out
        tids = A.model.tids()
        t = A.pack_time(len(tids) - case['pack_k'] % (len(tids) + 1))
        stop = c07_pack.tid_of_time(t)
        gc = bool(case['gc'])
        datafs = os.path.join(da, 'Data.fs')
        caps = c07_pack.programs.CAPS['fs']
        if case.get('nokeep'):
            A.storage.pack_keep_old = False
            out.label('pack-without-keeping-the-old-file')
        if case.get('prepack') and case['mode'] == 'crash' and len(tids) >= 3:
            # an earlier pack first: the recorded pack then finds a left-over Data.fs.old
            try:
                tpre = A.pack_time(max(1, len(tids) // 2))
                A.storage.pack(tpre, referencesf, gc=False)
                stop = max(stop, c07_pack.tid_of_time(tpre))     # the region protected after both packs
                if os.path.exists(datafs + '.old'):
                    out.label('second-pack-with-old-file')
            except Exception as e:
                if type(e).__name__ not in ('FileStorageError', 'PackError', 'AssertionError'):
                    raise
        if case['mode'] == 'crash':
            # a second pack while this one runs must be refused: ask for it from inside the packer
            # (the documented packer= hook), deterministically "concurrent"
            from ZODB.FileStorage.FileStorage import FileStorageError
            default_packer = A.storage.packer
            nested = []

            def packer(storage, refsf, stop_, gc_):
                # (the nested requests run the default packer if they are - wrongly - admitted)
                storage.packer = default_packer
                for attempt in (1, 2, 3):
                    try:
                        storage.pack(t, refsf, gc=gc_)
                        nested.append('accepted (request #%d while the first pack runs)' % attempt)
                        break
                    except FileStorageError as e:
                        nested.append('refused' if 'Already packing' in str(e) else 'other: %s' % e)
                    # the undo log stays disabled for the whole pack, whatever was refused meanwhile
                    try:
                        storage.undoLog(0, 5)
                        nested.append('undoLog answered during the pack (after %d refused requests)' % attempt)
                        break
                    except Exception as e:      # noqa: B902
                        if type(e).__name__ != 'UndoError':
                            raise
                return default_packer(storage, refsf, stop_, gc_)
            A.storage.packer = packer
            initial = snapshot_dir(da)
            del rec.log[:]
            try:
                A.storage.pack(t, referencesf, gc=gc)
            except Exception as e:
                if type(e).__name__ not in ('FileStorageError', 'PackError', 'AssertionError'):
                    raise
                out.label('pack-raised')
            bad = [x for x in nested if x != 'refused']
            if bad:
                out.fail((PROPERTY, 'second-pack', 'not-refused'), 'while a pack is in progress: %s' % bad[0])
                return done(out, nt)
            if nested:
                out.label('second-pack-refused')
            del A.storage.packer
            log = list(rec.log)
            rawio.stop()
            out.label('crash', 'ops=%d' % min(len(log), 12))
            seen = set()
            img_root = newdir()
            n_img = [0]

            def evaluate(files, where, after_first_pack_write):
                key = hashlib.sha1(repr(sorted((p, bytes(b)) for p, b in files.items())).encode()).digest()
                if key in seen:
                    return True
                seen.add(key)
                out.evals += 1
                if after_first_pack_write:
                    nt.append(key)
                n_img[0] += 1
                sub = os.path.join(img_root, 'i%d' % n_img[0])
                os.mkdir(sub)
                for p, b in files.items():
                    with open(os.path.join(sub, os.path.basename(p)), 'wb') as f:
                        f.write(bytes(b))
                names = sorted(os.path.basename(p) for p in files)
                try:
                    fs = FileStorage(os.path.join(sub, 'Data.fs'))
                except Exception as e:
                    out.fail((PROPERTY, 'crash-reopen', 'open-failed', type(e).__name__),
                             '%s (files present: %r): reopening raised %r' % (where, names, e))
                    return False
                try:
                    tmp = Outcome()
                    c07_pack.compare_protected(fs, B.storage, B.model, stop, gc, tmp, where, caps)
                    if tmp.failures:
                        f0 = tmp.failures[0]
                        out.fail((PROPERTY, 'crash-reopen') + f0.sig[1:],
                                 '%s (files present: %r): %s' % (where, names, f0.msg))
                        return False
                finally:
                    fs.close()
                return True
            files = {p: bytearray(b) for p, b in initial.items()}
            pack_written = False
            if not evaluate(files, 'before the pack', False):
                return done(out, nt)
            for i, e in enumerate(log):
                if e[0] == 'mark':
                    continue
                if e[0] == 'write' and e[1].endswith('.pack'):
                    n = len(e[3])
                    for c in sorted({x % n for x in case['cuts']} | {1, n - 1}):
                        if 0 < c < n:
                            tmpf = {p: bytearray(b) for p, b in files.items()}
                            rawio.apply_op(tmpf, e, cut=c)
                            if not evaluate(tmpf, 'crash inside raw op #%d (write to .pack cut at %d/%d)' % (i, c, n), True):
                                return done(out, nt)
                    pack_written = True
                rawio.apply_op(files, e)
                if e[0] == 'fsync':
                    continue
                if not evaluate(files, 'crash after raw op #%d %s %s' % (
                        i, e[0], ' -> '.join(os.path.basename(x) for x in e[1:3] if isinstance(x, str))), pack_written):
                    return done(out, nt)
            # the live storage after the pack, with later commits
            for op in case['after']:
                t0 = clock.CLOCK.now
                A.gtxn(op[1])
                clock.CLOCK.now = t0
                B.gtxn(op[1])
            if 'pack-raised' not in out.classes:
                tmp = Outcome()
                c07_pack.compare_protected(A.storage, B.storage, B.model, stop, gc, tmp, 'live storage after pack and later commits', caps)
                for f0 in tmp.failures[:1]:
                    out.fail((PROPERTY, 'after-pack') + f0.sig[1:], f0.msg)
            return done(out, nt)

        # ---- mode fault: every file operation of the pack fails in turn
        rec.raw_ops = 0
        del rec.log[:]
        try:
            A.storage.pack(t, referencesf, gc=gc)
            dry_ok = True
        except Exception as e:
            if type(e).__name__ not in ('FileStorageError', 'PackError', 'AssertionError'):
                raise
            dry_ok = False
        n_ops = rec.raw_ops
        out.label('fault', 'ops=%d' % min(n_ops, 12))
        A.close()
        B.close()
        rawio.stop()
        if not dry_ok:
            return out
        for n in range(n_ops):
            sub = Outcome()
            A, B, rec, da = build(case, sub)
            plan = rawio.FaultPlan('', None, n)
            rec.raw_ops = 0
            rec.faults = [plan]
            where = 'OSError injected at file operation #%d of %d of the pack' % (n, n_ops)
            raised = None
            try:
                A.storage.pack(t, referencesf, gc=gc)
            except OSError as e:
                raised = e
            finally:
                rec.faults = []
            out.evals += 1
            if not plan.fired:
                A.close()
                B.close()
                continue
            if n >= 1:
                nt.append(n)
            if raised is None:
                # the failure was absorbed (e.g. removal of the .old file / index save): then the pack
                # must have completed properly
                out.label('fault-absorbed')
                tmp = Outcome()
                c07_pack.compare_protected(A.storage, B.storage, B.model, stop, gc, tmp, where + ' [absorbed]', caps)
                for f0 in tmp.failures[:1]:
                    out.fail((PROPERTY, 'failed-pack') + f0.sig[1:], f0.msg)
            else:
                out.label('pack-failed-with-OSError')
                # unchanged and usable
                tmp = Outcome()
                try:
                    A.battery.compare(A.storage, A.model, tmp, PROPERTY, where=where + ' [storage after the failed pack]')
                except Exception as e:
                    out.fail((PROPERTY, 'failed-pack', 'storage-unusable', type(e).__name__),
                             '%s: the storage cannot be used after the failed pack: %r' % (where, e))
                if tmp.failures:
                    # not unchanged: then the failure came after the swap (index save, removal of the
                    # old file) and the database must be the packed one
                    tmp2 = Outcome()
                    c07_pack.compare_protected(A.storage, B.storage, B.model, stop, gc, tmp2, where + ' [after the failed pack]', caps)
                    out.label('failure-after-the-swap')
                    for f0 in tmp2.failures[:1]:
                        out.fail((PROPERTY, 'failed-pack') + f0.sig[1:], f0.msg + ' ; and not unchanged either: ' + tmp.failures[0].msg)
                if not out.failures:
                    from checks.c05_unfinished import commit_lock_free
                    if not commit_lock_free(A.storage):
                        out.fail((PROPERTY, 'failed-pack', 'commit-lock-held'), where + ': commit lock still held')
                if not out.failures:
                    try:
                        t0 = clock.CLOCK.now
                        A.gtxn([['upd', 0]])
                        clock.CLOCK.now = t0
                        B.gtxn([['upd', 0]])
                        A.storage.pack(t, referencesf, gc=gc)
                    except Exception as e:
                        out.fail((PROPERTY, 'failed-pack', 'next-operation-failed', type(e).__name__),
                                 '%s: the next commit / pack raised %r' % (where, e))
                    else:
                        tmp = Outcome()
                        c07_pack.compare_protected(A.storage, B.storage, B.model, stop, gc, tmp, where + ' [after the next, successful pack]', caps)
                        for f0 in tmp.failures[:1]:
                            out.fail((PROPERTY, 'failed-pack') + f0.sig[1:], f0.msg)
            A.close()
            B.close()
            rawio.stop()
            if out.failures:
                break
        h = repr(sorted(case.items()))
        out.nt_keys = [(h, x) for x in nt]
        return out
    finally:
        A.close()
        B.close()


def done(out, nt):
    out.nt_keys = nt
    return out


LEVEL_TEXT = ('For generated histories every prefix of the file operations a pack performs (including each rename/remove and torn '
              '.pack writes) is reopened and compared with an unpacked twin on the region the statement protects; every file '
              'operation is also failed in turn and the storage must stay unchanged and usable. Exhaustive over operation '
              'boundaries per generated history.')
LEVEL_NOTE = ('Trusted: rawio recording/fault layer; C07\'s protected-region comparison; vlib/sched.py and the event-log oracles for the '
              'thread cases. Crash and fault points are enumerated; thread schedules (packer with committers and readers) are sampled; '
              'crash points inside a concurrent schedule are not generated.')
