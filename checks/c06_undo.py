"""C06 — undo restores the pre-transaction state or changes nothing."""
import os

from hypothesis import strategies as st

from vlib import clock, locks, programs, records
from vlib.driver import Outcome, newdir
from vlib.model import q_load

PROPERTY = 'C06'
LEVEL = 'exploration'
TECH = ('model-based PBT: generated histories with undo choices (single, multiple, undo of undo, of creation, with equal / '
        'mergeable / conflicting later changes, after pack and reopen) vs an undo model; raw storage API and DB.undo through connections')
RULE = ('cases = (raw) generated FileStorage programs over plain and resolvable (Counter) objects with undo records inside '
        '2PC, packs and reopens, full query battery after every step (current state + undo outcomes after a pack); '
        '(db) generated programs through DB/Connection: sets, increments, creations, DB.undo / undoMultiple of entries of '
        'undoLog, pack, reopen, with a second connection that must keep its snapshot until its next boundary; oracle: undo '
        'model (copy pre-state / un-create / three-way merge via the recording resolver / refuse-and-unchanged); '
        'evaluations = steps checked; non-trivial = an applied undo where an undone object has a later revision, or undo '
        'of an undo, or of a creation, or >= 2 transactions undone at once; distinct by program hash')
ASSUMPTIONS = ['when the current state and the undone state are value-equal but stored in different records the implementation '
               'may copy or refuse; both are accepted only for records without data (deletions)',
               'resolved records are compared by parsed state (class, dict), their bytes are then adopted by the model']
BUDGET = {'quick': {'examples': 14000, 'workers': 8},
          'thorough': {'examples': 120000, 'workers': 16}}


def strategy(tier):
    n = 10 if tier == 'quick' else 18
    allow = {'undo', 'del', 'reopen', 'pack', 'stale'}
    undo_heavy = st.one_of(
        programs.txn_strategy({'undo'}, max_recs=3),
        st.tuples(st.just('txn'), st.just([0, 0, 0]),
                  st.lists(st.tuples(st.just('undo'), st.integers(0, 5)).map(list), min_size=1, max_size=3),
                  st.just(['finish'])).map(list),
        st.tuples(st.just('txn'), st.just([0, 1, 0]),
                  st.lists(st.tuples(st.just('upd'), st.integers(0, 6), st.sampled_from([0, 0, 1, 5])).map(list),
                           min_size=1, max_size=3),
                  st.just(['finish'])).map(list))
    raw = st.fixed_dictionaries({
        'mode': st.just('raw'),
        'prog': st.lists(st.one_of(programs.program_strategy('fs', 1, allow).map(lambda l: l[0]), undo_heavy, undo_heavy),
                         min_size=2, max_size=n)})
    names = st.sampled_from(['a', 'b', 'c', 'x', 'y'])
    dbop = st.one_of(
        st.tuples(st.just('set'), st.lists(st.tuples(names, st.integers(0, 3)), min_size=1, max_size=3)),
        st.tuples(st.just('set'), st.lists(st.tuples(names, st.integers(0, 3)), min_size=1, max_size=2)),
        st.tuples(st.just('inc'), names, st.integers(1, 5)),
        st.tuples(st.just('create'), st.sampled_from(['n1', 'n2', 'n3'])),
        st.tuples(st.just('undo'), st.lists(st.integers(0, 6), min_size=1, max_size=1)),
        st.tuples(st.just('undo'), st.lists(st.integers(0, 6), min_size=1, max_size=1)),
        st.tuples(st.just('undo'), st.lists(st.integers(0, 6), min_size=2, max_size=3, unique=True)),
        st.tuples(st.just('observe'), st.booleans()),
        st.tuples(st.just('pack'), st.integers(0, 12)),
        st.tuples(st.just('reopen')),
    ).map(list)
    free = st.lists(dbop, min_size=2, max_size=n + 4)
    # "before and after packs": a state brought back by an undo of an undo (back-pointer chains), then a pack
    # around it, and everything is read again from the storage
    nn = st.sampled_from(['n1', 'n2', 'n3'])
    chain = st.tuples(st.lists(dbop, max_size=3), nn, nn, st.integers(1, 3), st.integers(0, 12), st.lists(dbop, max_size=4)).map(
        lambda t: t[0] + [['create', t[1]], ['undo', [0]], ['create', t[2]]] + [['undo', [0]]] * t[3] + [['pack', t[4]]] + t[5])
    db = st.fixed_dictionaries({'mode': st.just('db'), 'ops': st.one_of(free, free.map(list), chain)})
    return st.one_of(raw, db)


# --------------------------------------------------------------------------------------
# raw mode

class Resolved:
    """expected result of conflict resolution: compared by parsed state, bytes adopted later"""

    def __init__(self, cls, state):
        self.cls, self.state = cls, state

    def __eq__(self, other):
        return False

    def __hash__(self):
        return id(self)


def state_of(data):
    if isinstance(data, Resolved):
        return data.cls, data.state
    return records.parse_record(data)


class UndoRunner(programs.StorageRunner):
    def make_data(self, oid, pad, new):
        uid = self.new_uid()
        if new:
            self.cls[oid] = 'Counter' if uid % 3 else 'Node'
        cls = self.cls.get(oid, 'Node')
        if cls == 'Counter':
            return records.make_record(uid, pad=pad, cls='Counter', extra={'n': (uid * 7) % 11})
        return records.make_record(uid, pad=pad)

    def can_stale(self, oid):
        return self.cls.get(oid, 'Node') == 'Node'

    def resolve(self, oid, t_data, cur, pre):
        if pre is None:
            return None
        ct, st_t = state_of(t_data)
        cc, st_c = state_of(cur)
        cp, st_p = state_of(pre)
        if cp != 'Counter':
            return None
        r = dict(st_p)
        r['n'] = st_c.get('n', 0) + st_p.get('n', 0) - st_t.get('n', 0)
        r['merged'] = r.get('merged', 0) + 1
        self.labels.add('undo-resolved')
        return Resolved('Counter', r)

    def after_commit(self, txn):
        last = {oid: i for i, (oid, _) in enumerate(txn.recs)}
        # several records of one object in a multi-undo: only the last one is readable
        txn.recs[:] = [rec for i, rec in enumerate(txn.recs) if last[rec[0]] == i]
        for i, (oid, data) in enumerate(txn.recs):
            if isinstance(data, Resolved):
                got = q_load(self.storage, oid)
                if got == 'POSKeyError':
                    self.fail('undo-resolution', 'missing', 'resolved object %r does not load' % oid)
                    txn.recs[i] = (oid, None)
                    continue
                actual = got[1]
                cls, state = records.parse_record(actual)
                if (cls, state) != (data.cls, data.state):
                    self.fail('undo-resolution', 'wrong-merge',
                              'object %r stored %r, the class merges to %r' % (oid, state, data.state))
                txn.recs[i] = (oid, actual)


def execute_raw(case, out):
    import ZODB.ConflictResolution as CR
    CR._unresolvable.clear()
    CR._class_cache.clear()
    d = newdir()
    r = UndoRunner('fs', d, out, PROPERTY)
    r.cls = {}
    r.count_queries = False
    applied_before = 0
    try:
        for op in case['prog']:
            r.step(op)
            out.evals += 1
            if out.failures or r.diverged:
                break
            if op[0] == 'clock':
                continue
            if not r.packed:
                r.check('after %s' % op[0])
            else:
                for oid in sorted(r.model.oids()):
                    got = q_load(r.storage, oid)
                    if got not in r.model.x_load(oid):
                        out.fail((PROPERTY, 'load-after-pack', 'mismatch'),
                                 'load(%r) -> %s ; model %s' % (oid, str(got)[:100], str(r.model.x_load(oid))[:160]))
                        break
                from vlib.model import q_undoLog
                got = q_undoLog(r.storage, 0, -1000)
                if got not in r.model.x_undoLog(0, -1000):
                    out.fail((PROPERTY, 'undoLog-after-pack', 'mismatch'),
                             'undoLog -> %s ; model (statuses read back after the pack) %s' % (
                                 str(got)[:300], str(r.model.x_undoLog(0, -1000))[:300]))
            if out.failures:
                break
    finally:
        r.close()
    out.label('raw', *r.labels)
    out.nontrivial = bool(r.labels & {'undo-of-undo', 'undo-of-creation', 'undo-resolved', 'undo-with-later-revision',
                                      'multi-undo'})


# --------------------------------------------------------------------------------------
# db mode

ABSENT = None


class DbModel:
    """value-level history: list of (tid, {key: state|ABSENT}); key = object name or 'root'"""

    def __init__(self):
        self.txns = []      # dicts: tid, writes, kind, packed

    def revs(self, key):
        return [(i, t['writes'][key]) for i, t in enumerate(self.txns) if key in t['writes']]

    def current(self, key):
        r = self.revs(key)
        return r[-1][1] if r else ABSENT

    def state(self):
        keys = set()
        for t in self.txns:
            keys.update(t['writes'])
        return {k: self.current(k) for k in keys}

    def plan_undo(self, idxs):
        """undo model transactions idxs (in the given order) -> ('ok'|'either'|'error', writes)"""
        pending = {}
        verdict = 'ok'
        for idx in idxs:
            t = self.txns[idx]
            if t.get('packed'):
                return 'error', {}      # status 'p' (read back from the iterator) or dropped by the pack
            for key, t_state in t['writes'].items():
                revs = self.revs(key)
                before = [r for r in revs if r[0] < idx]
                after = [r for r in revs if r[0] > idx]
                pre = before[-1][1] if before else ABSENT
                if not after and key not in pending:
                    pending[key] = pre
                    continue
                cur = pending[key] if key in pending else after[-1][1]
                if cur == t_state and cur is not ABSENT:
                    pending[key] = pre
                    continue
                if cur is ABSENT and t_state is ABSENT:
                    verdict = 'either'
                    pending[key] = pre
                    continue
                if cur is ABSENT or t_state is ABSENT or not before:
                    return 'error', {}
                if (key in ('a', 'b', 'c') or key.startswith('n')) and pre is not ABSENT:
                    pending[key] = dict(pre, n=cur['n'] + pre['n'] - t_state['n'],
                                        merged=pre.get('merged', 0) + 1)
                    continue
                return 'error', {}
        return verdict, pending


def read_state(conn):
    """observable state through a connection: {'root': keys, name: attrs}"""
    root = conn.root()
    out = {'root': tuple(sorted(root.keys()))}     # (names only; the model's root also carries generations)
    for k in root.keys():
        o = root[k]
        o._p_activate()
        out[k] = dict(o.__dict__)
    return out


def expected_view(state):
    out = {}
    for k, v in state.items():
        if v is ABSENT:
            continue
        out[k] = tuple(sorted(x[0] for x in v)) if k == 'root' else v
    return out


def execute_db(case, out):
    import transaction
    import ZODB
    import ZODB.ConflictResolution as CR
    from ZODB.FileStorage import FileStorage
    from ZODB.POSException import UndoError
    from vlib.vclasses import Counter, Node
    CR._unresolvable.clear()
    CR._class_cache.clear()
    d = newdir()
    path = os.path.join(d, 'Data.fs')
    model = DbModel()
    env = {}

    def open_db():
        env['db'] = ZODB.DB(FileStorage(path))
        env['tm1'] = transaction.TransactionManager()
        env['tm2'] = transaction.TransactionManager()
        env['c1'] = env['db'].open(env['tm1'])
        env['c2'] = env['db'].open(env['tm2'])
        env['snap2'] = None

    def close_db():
        for k in ('tm1', 'tm2'):
            env[k].abort()
        env['c1'].close()
        env['c2'].close()
        env['db'].close()

    def commit(note, writes, kind='store'):
        tm = env['tm1']
        tm.get().note(note)
        tm.commit()
        tid = env['db'].storage.lastTransaction()
        model.txns.append({'tid': tid, 'writes': writes, 'kind': kind})
        clock.CLOCK.advance(1)

    open_db()
    nt = False
    try:
        # the DB created the root in its own transaction
        model.txns.append({'tid': env['db'].storage.lastTransaction(), 'writes': {'root': ()}, 'kind': 'init'})
        clock.CLOCK.advance(1)
        root = env['c1'].root()
        w = {}
        for name in ('a', 'b', 'c', 'x', 'y'):
            o = Counter() if name in 'abc' else Node()
            o.n = 0
            root[name] = o
            w[name] = {'n': 0}
        w['root'] = tuple(sorted((k2, 0) for k2 in w))
        commit('setup', w)
        env['tm2'].begin()
        env['snap2'] = expected_view(model.state())
        for op in case['ops']:
            k = op[0]
            out.evals += 1
            root = env['c1'].root()
            cur = model.state()
            if k == 'set':
                w = {}
                for name, val in op[1]:
                    if cur.get(name, ABSENT) is ABSENT:
                        continue
                    o = root[name]
                    o.n = val
                    o.tag = len(model.txns)       # every write is a distinct state
                    w[name] = dict(o.__dict__)
                if w:
                    commit('set', w)
            elif k == 'inc':
                name = op[1]
                if cur.get(name, ABSENT) is ABSENT:
                    continue
                o = root[name]
                o.n += op[2]
                w = {name: dict(o.__dict__)}
                commit('inc', w)
            elif k == 'create':
                name = op[1]
                if cur.get(name, ABSENT) is not ABSENT:
                    continue
                o = Counter()
                o.n = 1
                root[name] = o
                env['gen'] = env.get('gen', 0) + 1      # a re-created object is another object (another oid)
                keys = tuple(sorted(set(cur['root']) | {(name, env['gen'])}))
                commit('create', {name: {'n': 1}, 'root': keys})
            elif k == 'undo':
                log = env['db'].undoLog(0, 20)
                # entries correspond to model transactions by tid
                bytid = {t['tid']: i for i, t in enumerate(model.txns)}
                import base64
                picks = []
                for j in op[1]:
                    if log:
                        e = log[j % len(log)]
                        tid = base64.decodebytes(e['id'] + b'\n')
                        # (undoing the creation of the database root is outside the callers' domain)
                        if tid in bytid and bytid[tid] > 0 and bytid[tid] not in [p[1] for p in picks]:
                            picks.append((e['id'], bytid[tid]))
                if not picks:
                    continue
                # the storage undoes the given ids in the order DB.undoMultiple passes them
                verdict, writes = model.plan_undo([p[1] for p in picks])
                before = read_state(env['c1'])
                try:
                    if len(picks) == 1:
                        env['db'].undo(picks[0][0], env['tm1'].get())
                    else:
                        env['db'].undoMultiple([p[0] for p in picks], env['tm1'].get())
                    env['tm1'].get().note('undo')
                    env['tm1'].commit()
                    ok = True
                except UndoError:
                    env['tm1'].abort()
                    ok = False
                if ok:
                    if verdict == 'error' and any(t.get('packed') for t in model.txns):
                        # pack re-links pre-state pointers: the value model no longer predicts undo
                        out.label('post-pack-undo-divergence')
                        break
                    if verdict == 'error':
                        out.fail((PROPERTY, 'db-undo', 'accepted'),
                                 'undo of model transactions %r accepted; the model says a later change is neither equal '
                                 'nor mergeable' % [p[1] for p in picks])
                        break
                    tid = env['db'].storage.lastTransaction()
                    later = any(r[0] > p[1] for p in picks for key in model.txns[p[1]]['writes']
                                for r in model.revs(key))
                    model.txns.append({'tid': tid, 'writes': writes, 'kind': 'undo'})
                    clock.CLOCK.advance(1)
                    out.label('db-undo-applied')
                    kinds = {model.txns[p[1]]['kind'] for p in picks}
                    if 'undo' in kinds:
                        out.label('undo-of-undo')
                        nt = True
                    if any(v is ABSENT for v in writes.values()):
                        out.label('undo-of-creation')
                        nt = True
                    if len(picks) > 1:
                        out.label('multi-undo')
                        nt = True
                    if later:
                        out.label('undo-with-later-revision')
                        nt = True
                else:
                    if verdict == 'ok' and any(t.get('packed') for t in model.txns):
                        out.label('post-pack-undo-divergence')
                        break
                    if verdict == 'ok':
                        out.fail((PROPERTY, 'db-undo', 'refused'),
                                 'undo of model transactions %r refused; the model says it applies' % [p[1] for p in picks])
                        break
                    out.label('db-undo-refused')
                    env['tm1'].begin()
                    after = read_state(env['c1'])
                    if after != before:
                        out.fail((PROPERTY, 'db-undo', 'refused-but-changed'), '%r -> %r' % (before, after))
                        break
            elif k == 'observe':
                # the second connection keeps its snapshot until its next boundary
                from ZODB.POSException import ReadConflictError
                try:
                    got = read_state(env['c2'])
                except ReadConflictError:
                    if not env.get('packed_since_boundary'):
                        raise
                    # a snapshot older than the pack time may get a retryable conflict error (C08)
                    out.label('observer-read-conflict-after-pack')
                    env['tm2'].abort()
                    got = env['snap2']
                    op = [op[0], True]
                if got != env['snap2']:
                    out.fail((PROPERTY, 'second-connection', 'snapshot-changed'),
                             'before its boundary the second connection reads %r, its snapshot was %r' % (got, env['snap2']))
                    break
                if op[1]:
                    env['tm2'].begin()
                    env['packed_since_boundary'] = False
                    env['snap2'] = expected_view(model.state())
                    got = read_state(env['c2'])
                    if got != env['snap2']:
                        out.fail((PROPERTY, 'second-connection', 'stale-after-boundary'),
                                 'after its boundary the second connection reads %r, committed state is %r' % (got, env['snap2']))
                        break
                    out.label('observer-boundary')
            elif k == 'pack':
                from persistent.TimeStamp import TimeStamp
                idx = op[1] % len(model.txns)
                t = TimeStamp(model.txns[idx]['tid']).timeTime() + 0.001
                try:
                    env['db'].pack(t)
                    status = {rt.tid: rt.status for rt in env['db'].storage.iterator()}
                    for tx in model.txns:
                        if status.get(tx['tid'], 'p') == 'p':
                            tx['packed'] = True
                    env['packed_since_boundary'] = True
                    out.label('pack')
                    # what is read next comes from the packed storage, not from the caches
                    env['c1'].cacheMinimize()
                except Exception as e:
                    if type(e).__name__ not in ('FileStorageError', 'PackError'):
                        raise
                    out.label('pack-refused')
                clock.CLOCK.advance(1)
            elif k == 'reopen':
                close_db()
                open_db()
                env['tm2'].begin()
                env['snap2'] = expected_view(model.state())
                out.label('reopen')
            # after every step: the writer's connection, at a fresh boundary, reads the model state
            env['tm1'].begin()
            got = read_state(env['c1'])
            exp = expected_view(model.state())
            if got != exp:
                out.fail((PROPERTY, 'db-state', 'mismatch'),
                         'after %s the committed state reads %r ; undo model says %r' % (k, got, exp))
                break
    finally:
        close_db()
    out.label('db')
    out.nontrivial = nt


def execute(case):
    out = Outcome()
    out.evals = 0
    clock.install()
    locks.install()
    clock.reset()
    if case['mode'] == 'raw':
        execute_raw(case, out)
    else:
        execute_db(case, out)
    return out


LEVEL_TEXT = ('Undo is exercised at the storage API (inside generated two-phase commits, with multi-undo and undo of undo) '
              'and through DB.undo/undoMultiple with a writer and an observer connection; outcomes (applied state, merge '
              'result, refusal with unchanged state, visibility at the next boundary) are compared with an explicit undo model.')
LEVEL_NOTE = ('Trusted: undo model (vlib/programs.plan_undo, DbModel.plan_undo), recording Counter resolver. After a pack only '
              'current state and undo verdicts are compared in raw mode (pack semantics are C07).')
