"""C01 — committed transactions survive a crash at any point; unfinished ones vanish."""
import hashlib
import os

from hypothesis import strategies as st

from vlib import clock, locks, programs, rawio
from vlib.driver import Outcome, newdir
from vlib.model import Battery, Model

PROPERTY = 'C01'
LEVEL = 'fault_enumeration'
TECH = ('crash-point enumeration over recorded raw writes of generated histories (Hypothesis), '
        'reopen each image with the real code, compare with model prefix')
RULE = ('a case = one generated FileStorage history (stores, deletes, undos, restores, aborts at every phase, '
        'reopen, boundary metadata/record sizes); the raw write/truncate/fsync log of Data.fs is recorded under '
        'Python\'s real buffering; evaluations = crash images (every operation boundary + torn byte-prefix cuts of '
        'every write at header-field boundaries, ends and generated offsets; every byte in thorough for writes '
        '<= 3 KiB) each reopened read-write and compared by the full query battery with the model prefix P_k, '
        'k_done <= k <= k_started, then one more commit + reopen; before that each image is opened READ-ONLY (nothing is '
        'truncated away): its iterator and lastTransaction must show whole committed transactions of such a prefix only; non-trivial = image whose cut lies strictly '
        'inside a transaction being voted or finished; distinct by SHA-1 of the image')
ASSUMPTIONS = ['crash model: prefix of the recorded raw operations with torn single writes; plus fsync-ordering '
               'oracle (no write to the data file after its last fsync when tpc_finish returns)',
               'side files (.index/.tmp/.lock) are absent in the image (C09 covers stale ones)']
BUDGET = {'quick': {'examples': 800, 'workers': 8},
          'thorough': {'examples': 8000, 'workers': 16}}
_TIER = ['quick']


def strategy(tier):
    _TIER[0] = tier
    n = 8 if tier == 'quick' else 12
    allow = {'stale', 'del', 'undo', 'restore', 'reopen', 'clock'}
    return st.fixed_dictionaries({
        'prog': programs.program_strategy('fs', n, allow),
        'cuts': st.lists(st.integers(0, 100000), min_size=0, max_size=6),
        'every_byte': st.booleans() if tier == 'thorough' else st.just(False),
    })


class MarkingRunner(programs.StorageRunner):
    n_finish = 0

    def finish(self, t, f=None):
        rec = rawio.ACTIVE
        rec.mark(('finish-enter', self.n_finish))
        r = super().finish(t, f)
        rec.mark(('finish-return', self.n_finish))
        self.n_finish += 1
        return r


def cut_points(data, extra, every_byte):
    n = len(data)
    if n <= 1:
        return []
    if every_byte and n <= 3072:
        return list(range(1, n))
    pts = {1, 4, 8, 12, 16, 17, 19, 21, 23, 24, 31, 32, 40, 42, 50, 65, n - 9, n - 8, n - 7, n - 1, n // 2}
    for x in extra:
        pts.add(x % n)
    return sorted(p for p in pts if 0 < p < n)


def execute(case):
    out = Outcome()
    out.evals = 0
    clock.install()
    locks.install()
    clock.reset()
    d = newdir()
    datafs = os.path.join(d, 'Data.fs')
    rec = rawio.start(watch=lambda p: p == datafs)
    r = MarkingRunner('fs', d, out, PROPERTY)

    index_snaps = []        # contents of Data.fs.index whenever it changed (saved at close / reopen)
    try:
        for op in case['prog']:
            r.step(op)
            if out.failures:
                break
            if os.path.exists(datafs + '.index'):
                with open(datafs + '.index', 'rb') as f:
                    b = f.read()
                if not index_snaps or index_snaps[-1] != b:
                    index_snaps.append(b)
                    rec.mark(('index-on-disk', len(index_snaps) - 1))
        r.check('live storage at end of history')
    finally:
        r.close()
        rawio.stop()
    if out.failures:
        return out
    model = r.model
    assert r.n_finish == len(model.txns), (r.n_finish, len(model.txns))
    log = rec.log
    out.label(*r.labels)

    # (5) fsync ordering
    dirty = False
    for e in log:
        if e[0] in ('write', 'truncate'):
            dirty = True
        elif e[0] == 'fsync':
            dirty = False
        elif e[0] == 'mark' and e[1][0] == 'finish-return' and dirty:
            out.fail((PROPERTY, 'fsync-order', 'unsynced-write-at-commit-return'),
                     'tpc_finish #%d returned with data-file writes newer than the last fsync' % e[1][1])
            return out

    # crash images
    seen = set()
    nt = []
    files = {}
    started = done = 0
    img_dir = newdir()
    battery = Battery(programs.CAPS['fs'])
    state = {'n': 0}

    cur_index = [None]

    def evaluate(buf, k_done, k_started, inside, where):
        if len(buf) < 4:
            return      # before the storage was created: outside the quantifier
        h = hashlib.sha1(bytes(buf)).digest()
        key = (h, k_done, k_started)
        if key in seen:
            return
        seen.add(key)
        out.evals += 1
        if inside:
            nt.append(h)
        check_image(bytes(buf), k_done, k_started, where)

    def check_image(img, k_done, k_started, where):
        from ZODB.FileStorage import FileStorage
        state['n'] += 1
        sub = os.path.join(img_dir, 'i%d' % state['n'])
        os.mkdir(sub)
        p = os.path.join(sub, 'Data.fs')
        with open(p, 'wb') as f:
            f.write(img)
        # the image as a read-only opener sees it (nothing is truncated away): only whole committed transactions
        from vlib.model import CorruptGuard
        allowed = [[t.tid for t in model.txns[:k]] for k in range(k_done, k_started + 1)]
        if cur_index[0] is not None and state['n'] % 2:
            # ... together with the index file that was on disk at that moment (saved by an earlier clean close)
            with open(p + '.index', 'wb') as f:
                f.write(cur_index[0])
        try:
            ro = FileStorage(p, read_only=True)
        except Exception as e:
            out.fail((PROPERTY, 'crash-read-only', 'open-failed', type(e).__name__),
                     '%s: opening the crash image read-only%s raised %r' % (
                         where, ' with the index saved earlier' if os.path.exists(p + '.index') else '', e))
            return
        try:
            lt = ro.lastTransaction()
            try:
                ro_tids = [t.tid for t in ro.iterator()]
            except CorruptGuard.errors():
                ro_tids = None          # (documented: the iterator may refuse a torn tail)
        finally:
            ro.close()
        if sorted(os.listdir(sub)) not in (['Data.fs'], ['Data.fs', 'Data.fs.index']):
            out.fail((PROPERTY, 'crash-read-only', 'files-created'),
                     '%s: the read-only open left %r in the directory' % (where, sorted(os.listdir(sub))))
            return
        if ro_tids is not None and ro_tids not in allowed:
            out.fail((PROPERTY, 'crash-read-only', 'iterator', 'mismatch'),
                     '%s (k_done=%d k_started=%d): read-only iterator lists %d transactions (last %r); committed: %s' % (
                         where, k_done, k_started, len(ro_tids), ro_tids[-1:] and ro_tids[-1], [len(a) for a in allowed]))
            return
        if lt not in [(a[-1] if a else b'\0' * 8) for a in allowed]:
            out.fail((PROPERTY, 'crash-read-only', 'lastTransaction', 'mismatch'),
                     '%s: read-only lastTransaction() is %r' % (where, lt))
            return
        try:
            fs = FileStorage(p)
        except Exception as e:
            out.fail((PROPERTY, 'crash-reopen', 'open-failed', type(e).__name__),
                     '%s: reopening the crash image raised %r' % (where, e))
            return
        try:
            best = None
            for k in range(k_started, k_done - 1, -1):
                tmp = Outcome()
                battery.compare(fs, Model(model.txns[:k]), tmp, PROPERTY, where='%s vs prefix P_%d' % (where, k))
                if not tmp.failures:
                    best = k
                    break
                if best is None:
                    first = tmp
            if best is None:
                f0 = first.failures[0]
                out.fail((PROPERTY, 'crash-reopen') + f0.sig[1:],
                         '%s (k_done=%d k_started=%d): %s' % (where, k_done, k_started, f0.msg))
                return
            # (3) recovered storage is usable and recovery is stable
            sub_out = Outcome()
            clock.CLOCK.advance(5.0)
            r2 = programs.StorageRunner('fs', sub, sub_out, PROPERTY, storage=fs,
                                        model=Model(model.txns[:best]))
            r2.oids = sorted(r2.model.oids())
            r2.do_txn([1, 0, 0], [['new', 3], ['upd', 0, 2]], ['finish'])
            fs = None
            r2.reopen(True)
            r2.check('%s: after one more commit and reopen' % where)
            fs = r2.storage
            for f0 in sub_out.failures:
                out.fail((PROPERTY, 'crash-recovered-use') + f0.sig[1:], f0.msg)
        finally:
            if fs is not None:
                fs.close()

    every = case.get('every_byte', False)
    nlog = len(log)
    for i, e in enumerate(log):
        if e[0] == 'mark':
            if e[1][0] == 'index-on-disk':
                cur_index[0] = index_snaps[e[1][1]]
            elif e[1][0] == 'finish-enter':
                started += 1
            else:
                done += 1
            continue
        if e[0] == 'write':
            base = files.get(e[1])
            for c in cut_points(e[3], case['cuts'], every):
                tmpf = {e[1]: bytearray(base) if base is not None else bytearray()}
                rawio.apply_op(tmpf, e, cut=c)
                evaluate(tmpf[e[1]], done, started, True, 'torn write #%d cut at %d/%d (offset %d)' % (
                    i, c, len(e[3]), e[2]))
                if out.failures:
                    return finish(out, nt)
        rawio.apply_op(files, e)
        if e[0] == 'fsync':
            continue
        buf = files.get(datafs)
        if buf is not None:
            # inside a transaction iff the next entries still belong to an open vote/finish:
            # approximated as "a finish is in progress, or the image's tail is an unfinished vote"
            inside = started > done
            evaluate(buf, done, started, inside, 'after raw op #%d %s' % (i, e[0]))
            if out.failures:
                return finish(out, nt)
    return finish(out, nt)


def finish(out, nt):
    out.nt_keys = nt
    if nt:
        out.label('has-torn-image')
    return out


LEVEL_TEXT = ('For each generated history every prefix of the raw operations on the data file (as issued through '
              'Python\'s real buffered I/O) and torn cuts of every write are materialised, reopened with the real '
              'FileStorage and compared query-by-query with the model prefix; the recovered storage must accept a '
              'further commit and survive another reopen. Enumeration is exhaustive over operation boundaries and '
              '(thorough) over every byte of small writes, per generated history.')
LEVEL_NOTE = ('Trusted: rawio recording layer (io.FileIO subclass under the real BufferedRandom), the model. Crash '
              'model = prefix of raw operations (+ fsync-ordering oracle); reordering of unsynced writes and '
              'directory durability are not modelled.')
