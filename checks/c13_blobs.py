"""C13 — blob data commits, aborts, undoes and packs together with its object record."""
import hashlib
import os

from hypothesis import strategies as st

from vlib import clock, locks
from vlib.driver import Outcome, newdir
from vlib.objprog import FailingRM

PROPERTY = 'C13'
LEVEL = 'exploration'
TECH = 'model-based stateful PBT: generated blob programs vs a blob-file model (file set, bytes, immutability) incl. failures, undo, pack'
RULE = ('cases = generated programs over Blob objects on FileStorage+blob_dir and BlobStorage(MappingStorage): create, rewrite '
        '(w), append (a), edit (r+), consumeFile, savepoint/rollback, commit, abort, commits failed by a participant at each '
        'phase or by a conflict raised after the blob was stored, undo/redo, pack, with another object in the transaction and a '
        'second connection reading; oracle after every boundary: the set of *.blob files equals the blob records listed by '
        'the storage iterator (exactly one file per record, bytes = model), readers get the bytes of their snapshot, nothing '
        'uncommitted is visible, after abort/failed commit the file set equals the one before, committed files keep inode, '
        'size and SHA-1; evaluations = steps; non-trivial = a blob rewritten at least once plus one of {failed commit after '
        'the blob store, undo, pack removing a blob revision}; distinct by program hash; later additions: raw calls with a foreign transaction, two transactions undone in one, undo transactions refused at the vote, commits refused for an open blob, committed-file reads (\'c\' mode, committed()), blobs created without data, a second connection with savepointed blobs, pack_keep_old=False, the wrapper over a FileStorage (without its own undo)')
ASSUMPTIONS = ['the storage iterator is trusted as the listing of blob records still present (after undo and pack)',
               'extra files after an undo of a blob creation are not forbidden by the statement']
BUDGET = {'quick': {'examples': 12000, 'workers': 8},
          'thorough': {'examples': 100000, 'workers': 16}}

DATA = [b'', b'A', b'BB', b'CCC', b'DDDD' * 10, b'E' * 5000]


def strategy(tier):
    n = 16 if tier == 'quick' else 30
    i = st.integers(0, 2)
    d = st.integers(0, len(DATA) - 1)
    op = st.one_of(
        st.tuples(st.just('create'), i, d),
        st.tuples(st.just('write'), i, st.sampled_from(['w', 'w', 'a', 'r+']), d),
        st.tuples(st.just('write'), i, st.sampled_from(['w', 'a', 'r+']), d),
        st.tuples(st.just('consume'), i, d),
        st.tuples(st.just('setnode'), st.integers(1, 9)),
        st.tuples(st.just('commit')), st.tuples(st.just('commit')),
        st.tuples(st.just('abort')),
        st.tuples(st.just('fail_commit'), st.sampled_from(['commit', 'tpc_vote', 'tpc_begin']), st.sampled_from(['before', 'after', 'after'])),
        st.tuples(st.just('conflict_commit')),
        st.tuples(st.just('savepoint')), st.tuples(st.just('savepoint')),
        st.tuples(st.just('rollback'), st.integers(0, 3)),
        st.tuples(st.just('undo'), st.integers(0, 7)),
        st.tuples(st.just('undo2')),
        st.tuples(st.just('pack'), st.integers(0, 8)),
        st.tuples(st.just('read'), i),
        st.tuples(st.just('observe'), st.booleans()),
        st.tuples(st.just('minimize')),
        st.tuples(st.just('other'), d, st.integers(0, 2)),
        st.tuples(st.just('open_commit'), i, d),
        st.tuples(st.just('read_c'), i),
        st.tuples(st.just('empty_create'), i),
        st.tuples(st.just('foreign'), st.integers(0, 5), d, st.sampled_from(['finish', 'finish', 'abort', 'vote-abort'])),
    ).map(list)
    free = st.lists(op, min_size=3, max_size=n)
    # the savepoint clause of the statement: the same blob saved by two savepoints, roll back to one of them
    wr = st.tuples(st.just('write'), i, st.sampled_from(['w', 'a', 'r+']), d).map(list)
    phased = st.tuples(st.lists(op, max_size=3), i, d, d, st.sampled_from(['w', 'a']), st.integers(0, 1), st.booleans(),
                       st.lists(op, max_size=5)).map(
        lambda t: t[0] + [['write', t[1], 'w', t[2]], ['savepoint'], ['write', t[1], t[4], t[3]], ['savepoint'], ['rollback', t[5]]]
        + ([['minimize']] if t[6] else []) + [['read', t[1]], ['commit']] + t[7])
    # the undo and pack clauses: rewrite, undo (and redo), pack at a time around them
    phased2 = st.tuples(st.lists(op, max_size=2), i, d, st.booleans(), d, st.integers(0, 1), st.booleans(), st.integers(0, 8),
                        st.lists(op, max_size=4)).map(
        lambda t: t[0] + [['write', t[1], 'w', t[2]], ['commit']] + ([['write', t[1], 'a', t[4]], ['commit']] if t[3] else [])
        + ([['undo2']] if t[3] and t[5] else [['undo', t[5]]]) + ([['undo', 0]] if t[6] else [])
        + [['pack', t[7]], ['observe', True], ['read', t[1]]] + t[8])
    # (the statement names FileStorage with a blob directory and the wrapper over a MappingStorage; the wrapper over a
    # FileStorage without blob directory - its undo-aware pack and its own undo - is driven as well)
    return st.fixed_dictionaries({'kind': st.sampled_from(['fs', 'fs', 'fs', 'bmap', 'bmap', 'bfs', 'fs-nokeep']),
                                  'ops': st.one_of(free, free.map(list), free.map(tuple).map(list), phased, phased2)})


def list_blob_files(blob_dir):
    """{(relative dir, file name): (bytes, ino, size)} for every committed blob file"""
    out = {}
    for root, dirs, files in os.walk(blob_dir):
        rel = os.path.relpath(root, blob_dir)
        if rel.split(os.sep)[0] == 'tmp':
            continue
        for f in files:
            if f.endswith('.blob'):
                p = os.path.join(root, f)
                with open(p, 'rb') as fh:
                    b = fh.read()
                st_ = os.stat(p)
                out[(rel, f)] = (b, st_.st_ino, st_.st_size)
    return out


def tmp_leftovers(blob_dir):
    t = os.path.join(blob_dir, 'tmp')
    if not os.path.isdir(t):
        return []
    return sorted(os.listdir(t))


class BlobWorld:
    def __init__(self, kind, d, out, prop=None):
        self.prop = prop or PROPERTY
        import transaction
        import ZODB
        from ZODB.blob import BlobStorage
        from ZODB.FileStorage import FileStorage
        from ZODB.MappingStorage import MappingStorage
        from vlib.vclasses import Node
        self.out = out
        self.kind = kind
        self.blob_dir = os.path.join(d, 'blobs')
        if kind == 'fs':
            self.storage = FileStorage(os.path.join(d, 'Data.fs'), blob_dir=self.blob_dir)
        elif kind == 'fs-nokeep':
            # (packs do not keep the old data file and the old blob files)
            self.storage = FileStorage(os.path.join(d, 'Data.fs'), blob_dir=self.blob_dir, pack_keep_old=False)
        elif kind == 'bfs':
            self.storage = BlobStorage(self.blob_dir, FileStorage(os.path.join(d, 'Data.fs')))
        else:
            self.storage = BlobStorage(self.blob_dir, MappingStorage())
        self.db = ZODB.DB(self.storage)
        self.tm = transaction.TransactionManager()
        self.tm2 = transaction.TransactionManager()
        self.conn = self.db.open(self.tm)
        self.c2 = self.db.open(self.tm2)
        self.scratch = d
        self.nscratch = 0
        # model
        self.committed = {}       # name -> bytes (current committed content), absent = not in the database
        self.work = {}            # name -> bytes  (uncommitted content in the writer)
        self.created = set()      # blobs created in the running transaction
        self.node = 0
        self.node_work = None
        self.rev_bytes = {}       # (oid, tid) -> bytes
        self.oids = {}            # name -> oid
        self.txns = []            # (tid, kind)
        self.sps = []             # (savepoint, snapshot)
        self.snap2 = {}
        self.seen_files = {}      # path key -> (sha, ino, size)
        self.labels = set()
        self.rewritten = False
        self.interesting = False
        root = self.conn.root()
        root['n'] = Node()
        root['n'].v = 0
        self.tm.commit()
        self.record_txn('setup')
        self.tm2.begin()
        self.snap2 = dict(self.committed)

    def fail(self, oracle, kind, msg):
        self.out.fail((self.prop, oracle, kind), msg)

    def close(self):
        for tm in (self.tm, self.tm2):
            try:
                tm.abort()
            except Exception:
                pass
        try:
            self.db.close()
        except Exception:
            pass

    def record_txn(self, kind):
        self.txns.append((self.db.storage.lastTransaction(), kind))
        clock.CLOCK.advance(1.0)

    def blob(self, name):
        return self.conn.root().get(name)

    def view(self, name):
        if name in self.work:
            return self.work[name]
        return self.committed.get(name)

    # ---- oracles
    def check_files(self, where):
        """exactly one committed file per blob record listed by the storage, bytes = model; immutability"""
        from ZODB.blob import is_blob_record
        from ZODB.utils import oid_repr, tid_repr
        files = list_blob_files(self.blob_dir)
        expected = {}
        it = self.db.storage.iterator()
        for t in it:
            for r in t:
                if r.data and is_blob_record(r.data):
                    expected[(r.oid, t.tid)] = self.rev_bytes.get((r.oid, t.tid))
        getattr(it, 'close', lambda: None)()
        fsh = self.storage.fshelper
        exp_files = {}
        for (oid, tid), b in expected.items():
            p = fsh.getBlobFilename(oid, tid)
            key = (os.path.relpath(os.path.dirname(p), self.blob_dir), os.path.basename(p))
            exp_files[key] = (b, oid, tid)
        for key, (b, oid, tid) in exp_files.items():
            if key not in files and self.kind == 'bfs' and getattr(self, 'packed_since_ever', False):
                # the wrapper over a FileStorage packs by asking loadSerial: a record the packed file keeps only as the
                # carrier of a pickle (not loadable as a revision any more) has lost its file
                from ZODB.POSException import POSKeyError
                try:
                    self.storage.loadSerial(oid, tid)
                except POSKeyError:
                    continue
            if key not in files:
                self.fail('blob-files', 'missing',
                          '%s: the storage lists a blob record for oid %s tid %s but there is no committed file %s' % (
                              where, oid_repr(oid), tid_repr(tid), os.path.join(*key)))
                return False
            if b is not None and files[key][0] != b:
                self.fail('blob-files', 'wrong-bytes',
                          '%s: file %s holds %r ; the model says %r' % (where, os.path.join(*key), files[key][0][:40], b[:40]))
                return False
        extra = [k for k in files if k not in exp_files]
        if extra and not self.undone_creation:
            self.fail('blob-files', 'orphan',
                      '%s: committed blob file(s) without a blob record in the storage: %r' % (
                          where, [os.path.join(*k) for k in extra[:3]]))
            return False
        # committed files are never modified in place
        for key, (b, ino, size) in files.items():
            sha = hashlib.sha1(b).hexdigest()
            old = self.seen_files.get(key)
            if old is not None and old != (sha, ino, size):
                self.fail('blob-files', 'modified-in-place',
                          '%s: committed file %s changed from %r to %r' % (where, os.path.join(*key), old, (sha, ino, size)))
                return False
            self.seen_files[key] = (sha, ino, size)
        for key in list(self.seen_files):
            if key not in files:
                del self.seen_files[key]
        return True

    def read_conn(self, conn, name):
        b = conn.root().get(name)
        if b is None:
            return None
        with b.open('r') as f:
            return f.read()

    def check_writer(self, where, names=None):
        for name in names or ['b0', 'b1', 'b2']:
            exp = self.view(name)
            got = self.read_conn(self.conn, name)
            if got != exp:
                self.fail('writer-read', 'mismatch', '%s: writer reads %s as %r ; model %r' % (
                    where, name, None if got is None else got[:40], None if exp is None else exp[:40]))
                return False
        return True

    def check_observer(self, where, boundary):
        from ZODB.POSException import POSKeyError, ReadConflictError
        if boundary:
            self.tm2.abort()
            self.tm2.begin()
            self.snap2 = dict(self.committed)
            self.packed_since = False
        for name in ['b0', 'b1', 'b2']:
            exp = self.snap2.get(name)
            try:
                got = self.read_conn(self.c2, name)
            except (ReadConflictError, POSKeyError):
                if getattr(self, 'packed_since', False):
                    self.labels.add('observer-conflict-after-pack')
                    return self.check_observer(where, True)
                raise
            if got != exp:
                self.fail('observer-read', 'mismatch',
                          '%s: the second connection (%s) reads %s as %r ; its snapshot holds %r' % (
                              where, 'fresh boundary' if boundary else 'no boundary since', name,
                              None if got is None else got[:40], None if exp is None else exp[:40]))
                return False
        return True

    # ---- ops
    def step(self, op):
        from ZODB.blob import Blob
        k = op[0]
        if k == 'create':
            name = 'b%d' % op[1]
            if self.view(name) is not None:
                return
            b = Blob()
            with b.open('w') as f:
                f.write(DATA[op[2]])
            self.conn.root()[name] = b
            self.work[name] = DATA[op[2]]
            self.created.add(name)
        elif k == 'write':
            name = 'b%d' % op[1]
            cur = self.view(name)
            if cur is None:
                return
            data = DATA[op[3]]
            b = self.blob(name)
            with b.open(op[2]) as f:
                f.write(data)
            if op[2] == 'w':
                new = data
            elif op[2] == 'a':
                new = cur + data
            else:
                new = data + cur[len(data):]
            self.work[name] = new
            if name in self.committed:
                self.rewritten = True
        elif k == 'consume':
            name = 'b%d' % op[1]
            if self.view(name) is None:
                return
            self.nscratch += 1
            p = os.path.join(self.scratch, 'consume%d' % self.nscratch)
            with open(p, 'wb') as f:
                f.write(DATA[op[2]])
            self.blob(name).consumeFile(p)
            self.work[name] = DATA[op[2]]
            self.labels.add('consumeFile')
            if name in self.committed:
                self.rewritten = True
        elif k == 'setnode':
            self.conn.root()['n'].v = op[1]
            self.node_work = op[1]
        elif k == 'read':
            self.check_writer('read', ['b%d' % op[1]])
        elif k == 'read_c':
            # the committed file itself (mode 'c', committed()): only without uncommitted changes, and then exactly
            # the committed bytes
            from ZODB.blob import BlobError
            name = 'b%d' % op[1]
            b = self.blob(name)
            if b is None:
                return
            for how in ('open-c', 'committed'):
                try:
                    if how == 'open-c':
                        with b.open('c') as f:
                            got = f.read()
                    else:
                        with open(b.committed(), 'rb') as f:
                            got = f.read()
                except BlobError:
                    got = 'BlobError'
                want = 'BlobError' if name in self.work or name not in self.committed else self.committed[name]
                if got != want:
                    self.fail('committed-read', 'mismatch', '%s of %s gives %r ; the model says %r' % (
                        how, name, got if isinstance(got, str) else got[:40], want if isinstance(want, str) else want[:40]))
                    return
            self.labels.add('committed-file-read')
        elif k == 'empty_create':
            # a blob that is never opened is stored with an empty file
            name = 'b%d' % op[1]
            if self.view(name) is not None:
                return
            self.conn.root()[name] = Blob()
            self.work[name] = b''
            self.created.add(name)
            self.labels.add('blob-created-without-data')
        elif k == 'observe':
            self.check_observer('observe', op[1])
        elif k == 'commit':
            self.commit()
        elif k == 'abort':
            self.abort('abort')
        elif k == 'fail_commit':
            self.fail_commit(op[1], op[2])
        elif k == 'conflict_commit':
            self.conflict_commit()
        elif k == 'open_commit':
            self.open_commit(op[1], op[2])
        elif k == 'other':
            # the second connection writes a blob of its own inside its open transaction, saves it with a savepoint (or
            # two) and gives the transaction up - now, or at its next boundary: what the first connection's savepoints
            # hold is not touched by that
            b = Blob()
            with b.open('w') as f:
                f.write(DATA[op[1]])
            self.c2.root()['other'] = b
            self.tm2.savepoint()
            if op[2]:
                with b.open('a') as f:
                    f.write(b'+')
                self.tm2.savepoint()
            with b.open('r') as f:
                got = f.read()
            if got != DATA[op[1]] + (b'+' if op[2] else b''):
                self.fail('second-connection', 'savepoint-blob-mismatch',
                          'the second connection reads its own uncommitted blob as %r' % got[:40])
            if op[2] != 2:
                self.tm2.abort()
                self.tm2.begin()
                self.snap2 = dict(self.committed)
                self.packed_since = False
            self.labels.add('second-connection-savepoint')
            self.check_writer('after the second connection saved a blob of its own')
        elif k == 'savepoint':
            sp = self.tm.savepoint()
            self.sps.append((sp, (dict(self.work), set(self.created), self.node_work)))
            self.labels.add('savepoint')
            self.check_writer('after savepoint')
        elif k == 'rollback':
            valid = [j for j, s in enumerate(self.sps) if s is not None]
            if not valid:
                return
            j = valid[op[1] % len(valid)]
            sp, snap = self.sps[j]
            sp.rollback()
            self.work, self.created, self.node_work = dict(snap[0]), set(snap[1]), snap[2]
            for x in range(j + 1, len(self.sps)):
                self.sps[x] = None
            self.labels.add('rollback')
            self.check_writer('after rollback')
        elif k == 'undo':
            self.undo(op[1])
        elif k == 'undo2':
            self.undo(0, both=True)
        elif k == 'pack':
            self.pack(op[1])
        elif k == 'foreign':
            self.foreign_calls(op[1], DATA[op[2]], op[3] if len(op) > 3 else 'finish')
        elif k == 'minimize':
            # the connection forgets every object it can (unchanged or saved by a savepoint): blobs written
            # before a savepoint are then known to the connection by their records only
            self.conn.cacheMinimize()
            if self.sps:
                import gc
                gc.collect()        # (ghosts stay in the cache while anything, e.g. a closed blob file, refers to them)
            if self.sps:
                self.labels.add('cache-minimized-after-savepoint')

    def foreign_calls(self, which, data, end='finish'):
        """storage level: while a transaction holds a stored blob, calls made with ANOTHER transaction object are
        rejected (tpc_abort: ignored) without effect; then the transaction finishes and its blob is there"""
        from ZODB.blob import Blob
        from ZODB.Connection import TransactionMetaData
        from ZODB.POSException import StorageTransactionError
        from ZODB.serialize import ObjectWriter
        if self.dirty():
            return
        self.tm.abort()
        self.end_txn()
        files_at_start = set(list_blob_files(self.blob_dir))
        st_ = self.storage
        record = ObjectWriter(None).serialize(Blob())
        t1, t2 = TransactionMetaData(), TransactionMetaData()
        self.nscratch += 1
        mine = os.path.join(self.scratch, 'raw%d' % self.nscratch)
        with open(mine, 'wb') as f:
            f.write(data)
        other = os.path.join(self.scratch, 'rawx%d' % self.nscratch)
        with open(other, 'wb') as f:
            f.write(b'FOREIGN')
        st_.tpc_begin(t1)
        oid = st_.new_oid()
        st_.storeBlob(oid, b'\0' * 8, record, mine, '', t1)
        try:
            if which == 0:
                st_.tpc_abort(t2)                       # documented: ignored
            else:
                call = [None, lambda: st_.tpc_vote(t2), lambda: st_.tpc_finish(t2),
                        lambda: st_.store(st_.new_oid(), b'\0' * 8, record, '', t2),
                        lambda: st_.storeBlob(oid, b'\0' * 8, record, other, '', t2),
                        lambda: st_.storeBlob(st_.new_oid(), b'\0' * 8, record, other, '', t2)][which]
                try:
                    call()
                except StorageTransactionError:
                    pass
                else:
                    self.fail('foreign-transaction', 'accepted', 'a call (#%d) with a transaction other than the one in progress was accepted' % which)
        finally:
            if self.out.failures:
                st_.tpc_abort(t1)
                return
        if end != 'finish':
            # ... or is aborted (before or after its vote): then nothing of it may remain
            files_before = files_at_start
            if end == 'vote-abort':
                st_.tpc_vote(t1)
            st_.tpc_abort(t1)
            self.labels.add('foreign-transaction-calls-then-abort')
            self.tm.begin()
            self.after_abort('abort of a raw transaction that saw calls with a foreign transaction (#%d)' % which, files_before)
            return
        st_.tpc_vote(t1)
        tid = st_.tpc_finish(t1)
        self.rev_bytes[(oid, tid)] = data
        self.record_txn('raw')
        self.labels.add('foreign-transaction-calls')
        self.tm.begin()
        self.after_boundary('after a raw transaction that saw calls with a foreign transaction (#%d)' % which)

    def dirty(self):
        return bool(self.work or self.node_work is not None)

    def end_txn(self):
        self.work, self.created, self.node_work, self.sps = {}, set(), None, []

    def commit(self):
        had = self.dirty()
        pending = dict(self.work)
        self.tm.commit()
        if had:
            self.record_txn('store')
            tid = self.txns[-1][0]
            root = self.conn.root()
            for name, b in pending.items():
                self.committed[name] = b
                oid = root[name]._p_oid
                self.oids[name] = oid
                self.rev_bytes[(oid, tid)] = b
            if self.node_work is not None:
                self.node = self.node_work
        self.end_txn()
        self.after_boundary('after commit')

    def after_boundary(self, where):
        self.check_files(where) and self.check_writer(where) and self.check_observer(where, False) \
            and self.check_observer(where, True)
        left = tmp_leftovers(self.blob_dir)
        if left and not self.out.failures:
            self.fail('blob-files', 'temporary-files-left', '%s: files left in the blob temporary directory: %r' % (where, left[:4]))

    def abort(self, how):
        files_before = set(list_blob_files(self.blob_dir))
        self.tm.abort()
        self.after_abort(how, files_before)

    def after_abort(self, how, files_before):
        self.end_txn()
        files_after = set(list_blob_files(self.blob_dir))
        if files_after != files_before:
            self.fail('blob-files', 'left-by-unfinished-transaction',
                      'after %s the blob directory holds %r which it did not hold before the transaction' % (
                          how, [os.path.join(*k) for k in sorted(files_after - files_before)][:3]))
            return
        self.after_boundary('after ' + how)

    def fail_commit(self, phase, position):
        if not self.dirty():
            return
        files_before = set(list_blob_files(self.blob_dir))
        blob_dirty = bool(self.work)
        self.tm.get().join(FailingRM(phase, position))
        try:
            self.tm.commit()
        except FailingRM.Boom:
            pass
        else:
            self.fail('fail-commit', 'not-raised', 'commit with a failing participant did not raise')
            return
        self.tm.abort()
        self.labels.add('failed-commit-%s-%s' % (phase, position))
        if blob_dirty and position == 'after' and phase in ('commit', 'tpc_vote'):
            self.interesting = True
        self.after_abort('failed commit (participant %s fails in %s)' % (position, phase), files_before)

    def open_commit(self, i, di):
        """a commit while a file of the blob is still open for writing is refused (ValueError): a failed commit like the
        others - nothing of the transaction remains"""
        name = 'b%d' % i
        if self.view(name) is None:
            return
        files_before = set(list_blob_files(self.blob_dir))
        f = self.blob(name).open('w')
        try:
            f.write(DATA[di])
            f.flush()
            try:
                self.tm.commit()
            except ValueError as e:
                if 'opened blobs' not in str(e):
                    raise
            else:
                self.fail('open-commit', 'not-refused', 'commit with a blob file open for writing did not raise')
                return
        finally:
            f.close()
            del f       # (a new blob's working file lives as long as the Blob object: nothing here may keep it alive)
        self.tm.abort()
        # (a new blob's working file lives exactly as long as the Blob object; here the object is still held by the
        # frames of the ValueError's traceback - a reference cycle - until the collector has run)
        import gc
        gc.collect()
        self.labels.add('commit-refused-for-open-blob')
        self.after_abort('commit refused because a blob file was open', files_before)

    def conflict_commit(self):
        """the blob is stored, then the store of another object of the same transaction conflicts"""
        from ZODB.POSException import ConflictError
        if not self.work:
            return
        # another connection commits a newer revision of the node
        c3 = self.db.open(self.tm2.__class__())
        try:
            c3.transaction_manager.begin()
            c3.root()['n'].v = 100 + len(self.txns)
            c3.transaction_manager.commit()
        finally:
            c3.close()
        self.record_txn('store')
        self.node = 100 + len(self.txns) - 1
        files_before = set(list_blob_files(self.blob_dir))
        self.conn.root()['n'].v = -1
        self.node_work = -1
        try:
            self.tm.commit()
        except ConflictError:
            pass
        else:
            self.fail('conflict', 'not-raised', 'commit over a newer revision did not conflict')
            return
        self.tm.abort()
        self.labels.add('conflict-after-blob-store')
        self.interesting = True
        self.after_abort('conflicting commit (blob stored before the conflict)', files_before)

    undone_creation = False

    def undo(self, j, both=False):
        """both: the two most recent transactions are undone in ONE transaction (two records of a blob they
        both wrote end up in it)"""
        from ZODB.POSException import UndoError
        if self.kind in ('bmap', 'bfs'):
            # (the wrapper over a FileStorage is outside the statement's two configurations; its own undo is driven only
            # by C15's restricted histories: here it takes part for commit, abort and its undo-aware pack)
            return
        if self.dirty():
            self.commit()
            if self.out.failures:
                return
        log = self.db.undoLog(0, 10)
        if not log:
            return
        e = log[j % len(log)]
        import base64
        target = base64.decodebytes(e['id'] + b'\n')
        if target == self.txns[0][0]:
            return
        targets = [target]
        if both:
            if len(log) < 3:
                return
            targets = [base64.decodebytes(x['id'] + b'\n') for x in log[:2]]
            if self.txns[0][0] in targets:
                return
        before = dict(self.committed)
        # expected content: what each blob held just before the undone transaction
        if j >= 4 and not both:
            # the undo transaction does not commit: another participant refuses at the vote, after the storage has
            # written the undo records and put the restored blob files in place - nothing of it remains
            files_before = set(list_blob_files(self.blob_dir))
            self.db.undo(e['id'], self.tm.get())
            self.tm.get().join(FailingRM('tpc_vote', 'after'))
            try:
                self.tm.commit()
            except (FailingRM.Boom, UndoError):
                pass
            else:
                self.fail('fail-commit', 'not-raised', 'undo transaction with a failing participant did not raise')
                return
            self.tm.abort()
            self.labels.add('undo-transaction-aborted-after-undo')
            self.after_abort('undo transaction aborted at the vote', files_before)
            return
        try:
            if both:
                self.db.undoMultiple([x['id'] for x in log[:2]], self.tm.get())
                self.labels.add('undo-two-in-one-transaction')
            else:
                self.db.undo(e['id'], self.tm.get())
            self.tm.commit()
        except UndoError:
            self.tm.abort()
            self.end_txn()
            self.labels.add('undo-refused')
            self.after_boundary('after refused undo')
            return
        self.end_txn()
        self.record_txn('undo')
        tid = self.txns[-1][0]
        self.labels.add('undo')
        self.interesting = True
        # the undo model for blobs: every blob written by the target goes back to the bytes it had
        # before the target (or disappears if the target created it)
        for target in targets:          # (newest first)
            for oid in sorted({o for (o, t) in self.rev_bytes if t == target}):
                earlier = sorted(t for (o, t) in self.rev_bytes if o == oid and t < target)
                # (None: the object does not exist before the target - the undo un-creates it)
                self.rev_bytes[(oid, tid)] = self.rev_bytes[(oid, earlier[-1])] if earlier else None
                if not earlier:
                    self.undone_creation = True
        # which object each name refers to is read from the root (a plain persistent mapping: C06's subject);
        # the bytes of each object come from the model of its revisions
        self.tm.begin()
        root = self.conn.root()
        self.committed = {}
        for name in ('b0', 'b1', 'b2'):
            b = root.get(name)
            if b is None:
                continue
            oid = b._p_oid
            revs = sorted(t for (o, t) in self.rev_bytes if o == oid and t <= tid)
            if not revs or self.rev_bytes[(oid, revs[-1])] is None:
                self.fail('undo', 'blob-of-uncreated-object', 'after undo the root refers to %s = oid %r, which the undo un-created' % (name, oid))
                return
            self.committed[name] = self.rev_bytes[(oid, revs[-1])]
            self.oids[name] = oid
        self.node = self.conn.root()['n'].v
        self.after_boundary('after undo')

    def pack(self, k):
        from persistent.TimeStamp import TimeStamp
        if self.dirty():
            self.commit()
            if self.out.failures:
                return
        tid = self.txns[k % len(self.txns)][0]
        t = TimeStamp(tid).timeTime() + 0.001
        n_before = len(list_blob_files(self.blob_dir))
        try:
            self.db.pack(t)
        except Exception as e:
            if type(e).__name__ not in ('FileStorageError', 'PackError', 'ValueError'):
                raise
            self.labels.add('pack-refused')
            return
        clock.CLOCK.advance(1.0)
        self.labels.add('pack')
        self.packed_since = True
        self.packed_since_ever = True
        self.pack_tid = max(getattr(self, 'pack_tid', tid), tid)
        if len(list_blob_files(self.blob_dir)) < n_before:
            self.labels.add('pack-removed-blob-file')
            self.interesting = True
        # files legitimately removed by the pack are forgotten by the immutability tracker in check_files
        self.check_files('after pack') and self.check_writer('after pack') and self.check_observer('after pack', True)
        if self.kind == 'fs-nokeep':
            left = [x for x in os.listdir(self.scratch) if x.endswith('.old')]
            if left:
                self.fail('pack', 'old-files-kept-against-the-option', 'pack_keep_old=False: %r exist after the pack' % left)


def execute(case):
    out = Outcome()
    out.evals = 0
    clock.install()
    locks.install()
    clock.reset()
    d = newdir()
    w = BlobWorld(case['kind'], d, out)
    try:
        for op in (['create', 0, 2], ['create', 1, 3], ['commit']):
            w.step(op)
        for op in case['ops']:
            w.step(op)
            clock.CLOCK.advance(0.25)
            out.evals += 1
            if out.failures:
                break
    finally:
        w.close()
    out.label(case['kind'], *w.labels)
    out.nontrivial = w.rewritten and w.interesting
    return out


LEVEL_TEXT = ('Generated blob programs run against a model of blob contents per revision; after every transaction boundary the '
              'complete listing of committed blob files is compared with the blob records the storage iterates (one file per '
              'record, exact bytes, unchanged inode/size/hash), plus what the writer and a second connection read.')
LEVEL_NOTE = ('Trusted: storage iterator as listing of records present; the blob model. Blob wrapper over DemoStorage is not driven here.')
