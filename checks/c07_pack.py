"""C07 — packing never changes what is observable at or after the pack time."""
import base64
import hashlib
import os
import time as _time

from hypothesis import strategies as st

from vlib import clock, locks, programs, records
from vlib.driver import Outcome, newdir
from vlib.model import (MAXTID, Z64, Txn, fmt_answer, p64, q_getTid, q_iterator, q_load, q_loadBefore, q_loadSerial,
                        q_undoLog, tid_boundaries, u64)

PROPERTY = 'C07'
LEVEL = 'exploration'
TECH = ('metamorphic PBT: the same generated graph history is run in lock-step on a storage that packs and on an unpacked '
        'twin; both must agree on the region the statement protects, including later undos')
RULE = ('cases = generated object-graph histories at the storage API (root + objects with generated references: creation, '
        'link, unlink making garbage and cycles, updates, deletions, undos incl. undo records pointing across the pack time '
        'and un-creations, reopen) with packs at generated times (before/between/exactly at/after transactions), gc on/off, '
        'repeated packs, on FileStorage, MappingStorage, DemoStorage; every step runs on the packing storage and on an '
        'unpacked twin with identical tids (harness clock); oracle: for every object reachable from the root in any state '
        'from the pack time on (model reachability over generated references) loadBefore at every bound after the pack '
        'time, load, getTid, loadSerial agree; every later transaction iterates identically; later undos have the same '
        'outcome; re-pack to an earlier time changes nothing; evaluations = steps compared; non-trivial = a pack that '
        'removed something (revision count or file size dropped) followed by >= 1 transaction; distinct by program hash; later additions: blob storages (FileStorage with blob directory, with and without pack_keep_old, blob wrapper over MappingStorage and over FileStorage), phased shapes (un-created object revived after the pack time; several revisions of one object undone in one transaction), garbage objects stored again, and the oracle that an object which did not load before a pack does not load after it')
ASSUMPTIONS = ['excluded by construction (counted): plain re-linking of an object that is garbage in a committed state; '
               'touching objects that are unreachable; undo of transactions at or before the pack time',
               'a pack that raises and leaves the protected region unchanged is an allowed outcome (counted)',
               'the unpacked twin is checked against the history model by the full battery (as in C04)']
BUDGET = {'quick': {'examples': 8000, 'workers': 8},
          'thorough': {'examples': 100000, 'workers': 16}}

KINDS = ['fs', 'fs', 'fs', 'fs-nogc', 'fs-nokeep', 'mapping', 'demo']


def strategy(tier):
    graph = graph_strategy(tier)
    return st.integers(0, 99).flatmap(lambda r: blob_strategy(tier) if r < 12 else graph)


def graph_strategy(tier):
    n = 12 if tier == 'quick' else 20
    idx = st.integers(0, 30)
    rec = st.one_of(
        st.tuples(st.just('gnew'), idx, st.sampled_from(['oc', 'oc', 'o', 'w'])),
        st.tuples(st.just('gnew'), idx, st.just('oc')),
        st.tuples(st.just('link'), idx, idx, st.sampled_from(['oc', 'oc', 'o', 'w'])),
        st.tuples(st.just('unlink'), idx, idx),
        st.tuples(st.just('unlink'), idx, idx),
        st.tuples(st.just('upd'), idx),
        st.tuples(st.just('del'), idx),
        # an object that is garbage is stored again (through a reference the application still holds), not re-linked
        st.tuples(st.just('updg'), idx),
    ).map(list)
    txn = st.tuples(st.just('gtxn'), st.lists(rec, min_size=1, max_size=3)).map(list)
    undo = st.tuples(st.just('gundo'), st.lists(st.integers(0, 5), min_size=1, max_size=2)).map(list)
    step = st.one_of(txn, txn, txn, undo, undo,
                     st.tuples(st.just('pack'), st.sampled_from([0, 0, 1, 1, 2, 3, 4, 6, 9, 14]), st.sampled_from([0, 1, 2, 3, 4, 5])).map(list),
                     st.tuples(st.just('reopen'), st.booleans()).map(list))
    free = st.lists(step, min_size=3, max_size=n)

    @st.composite
    def phased(draw):
        """build a structure, cut references, undo some cuts, pack at a time around the cuts: the shape
        the quantifier names ("undo records pointing across the pack time")"""
        prog = []
        nb = draw(st.integers(1, 4))
        chainy = draw(st.booleans())
        for i in range(nb):
            # object i+1 hangs below the latest object (chain) or any earlier one
            parent = i if (chainy or draw(st.booleans())) else draw(st.integers(0, i))
            prog.append(['gtxn', [['gnewp', parent, draw(st.sampled_from(['oc', 'oc', 'o']))]]])
        for _ in range(draw(st.integers(0, 2))):
            prog.append(['gtxn', [draw(rec)]])
        ncut_start = 1 + len(prog)          # model index of the first cut transaction (0 = root creation)
        nc = draw(st.integers(1, 3))
        same = None
        shape = draw(st.integers(0, 4))
        if shape == 0:
            # several revisions of ONE object (rewritten or cut each time): undone together they leave several records
            # of that object in one transaction
            same = draw(st.integers(0, nb))
            nc = draw(st.integers(2, 3))
            for _ in range(nc):
                prog.append(['gtxn', [draw(st.sampled_from([['updp', same], ['updp', same], ['unlinkp', same, 0]]))]])
        elif shape <= 2:
            # detach a subtree at several consecutive levels, bottom-up or top-down
            d0 = draw(st.integers(0, nb))
            levels = [max(0, d0 - i) for i in range(nc)]
            if draw(st.booleans()):
                levels.reverse()
            for lv in levels:
                prog.append(['gtxn', [['unlinkp', lv, draw(st.sampled_from([0, 0, 0, 1, 2]))]]])
        else:
            for _ in range(nc):
                prog.append(['gtxn', [['unlinkp', draw(st.integers(0, nb)), draw(st.integers(0, 3))]]])
        for _ in range(draw(st.integers(0, 1))):
            prog.append(['gtxn', [draw(rec)]])
        after_cuts = len(prog)              # number of transactions after the root's
        undos = draw(st.one_of(st.permutations(list(range(nc))),
                               st.lists(st.integers(0, nc - 1), min_size=1, max_size=3, unique=True)))
        if same is not None and draw(st.integers(0, 3)):
            undos = list(range(nc - 1, -1, -1))[:draw(st.integers(2, nc))]      # newest first: every one is accepted
        if draw(st.booleans()) or same is not None:
            prog.append(['gundo', [['abs', ncut_start + u] for u in undos]])
        else:
            for u in undos:
                prog.append(['gundo', [['abs', ncut_start + u]]])
        if same is not None and draw(st.booleans()):
            # ... and a later change of that object is undone: a record pointing back into the multi-undo transaction
            prog.append(['gtxn', [['updp', same]]])
            prog.append(['gundo', [0]])
        # undo of the undo of the undo ...: back-pointer chains of length >= 2 ending in the record with the pickle
        chain = draw(st.sampled_from([0, 0, 1, 2, 3]))
        for _ in range(chain):
            prog.append(['gundo', [0]])
        packk = after_cuts + draw(st.sampled_from([0, 0, 0, -1, 1, 2] + ([len(prog) - after_cuts, len(prog) - after_cuts - 1] if chain else [])))
        prog.append(['pack', ['abs', max(0, packk)], draw(st.sampled_from([0, 1, 2, 3, 4, 5]))])
        prog.extend(draw(st.lists(step, max_size=4)))
        return prog

    @st.composite
    def phased_revival(draw):
        """an object is created referring to an older object, the creation is undone, the older object loses its other
        referrers (or not), and after the pack time the creation is brought back by undoing the undo: the revived
        revision is a back-pointer to a record before the pack time of an object that does not exist at the pack time"""
        prog = []
        nb = draw(st.integers(1, 4))
        parent_of = {}
        for i in range(nb):
            parent = i if draw(st.booleans()) else draw(st.integers(0, i))
            parent_of[i + 1] = parent
            prog.append(['gtxn', [['gnewp', parent, 'oc']]])
        tgt = draw(st.integers(1, nb))
        holder = draw(st.integers(0, nb))
        recs = [['gnewrefp', holder, tgt, draw(st.sampled_from(['oc', 'oc', 'o']))]]
        if draw(st.booleans()):
            recs.append(draw(rec))
        prog.append(['gtxn', recs])
        k_create = len(prog)                  # model index of the creating transaction (0 = root's)
        prog.append(['gundo', [['abs', k_create]]])
        k_undo = len(prog)
        for _ in range(draw(st.integers(0, 2))):
            # the older object (or one above it) is cut loose
            v = tgt if draw(st.integers(0, 3)) else draw(st.integers(1, nb))
            prog.append(['gtxn', [['unlinkp', parent_of[v], draw(st.sampled_from([0, 0, 0, 1, 2]))]]])
        for _ in range(draw(st.integers(0, 1))):
            prog.append(['gtxn', [draw(rec)]])
        k_t = len(prog)
        prog.append(['gundo', [['abs', k_undo]]])
        for _ in range(draw(st.sampled_from([0, 0, 0, 1, 2]))):
            prog.append(['gundo', [0]])
        for _ in range(draw(st.integers(0, 1))):
            prog.append(['gtxn', [draw(rec)]])
        prog.append(['pack', ['abs', max(0, k_t + draw(st.sampled_from([0, 0, 0, 0, -1, 1])))], draw(st.sampled_from([0, 1, 2, 3, 4, 5]))])
        prog.extend(draw(st.lists(step, max_size=4)))
        return prog
    return st.fixed_dictionaries({'kind': st.sampled_from(KINDS),
                                  'prog': st.one_of(free, phased(), phased(), phased_revival())})


def blob_strategy(tier):
    """the packable storages that keep blob files beside the records (anchor src/ZODB/blob.py): FileStorage with a blob
    directory, and the blob wrapper over the non-undoing MappingStorage; C13's blob world with a pack-heavy mix"""
    from checks.c13_blobs import DATA
    n = 14 if tier == 'quick' else 26
    i = st.integers(0, 2)
    d = st.integers(0, len(DATA) - 1)

    def mk(k):
        if k == 'write':
            return st.tuples(st.just('write'), i, st.sampled_from(['w', 'w', 'a', 'r+']), d)
        if k == 'create':
            return st.tuples(st.just('create'), i, d)
        if k == 'pack':
            return st.tuples(st.just('pack'), st.integers(0, 8))
        if k == 'undo':
            return st.tuples(st.just('undo'), st.integers(0, 3))
        if k == 'observe':
            return st.tuples(st.just('observe'), st.booleans())
        if k == 'read':
            return st.tuples(st.just('read'), i)
        return st.tuples(st.just(k))
    mix = ['write', 'write', 'write', 'create', 'commit', 'commit', 'commit', 'pack', 'pack', 'pack', 'undo', 'undo2', 'observe', 'read']
    free = st.lists(st.one_of(*[mk(k) for k in mix]).map(list), min_size=4, max_size=n)
    # two records of one blob in one transaction before the pack time (several transactions undone at once)
    phased = st.tuples(i, d, d, st.booleans(), st.integers(0, 8), st.lists(st.one_of(*[mk(k) for k in mix]).map(list), max_size=4)).map(
        lambda t: [['write', t[0], 'w', t[1]], ['commit'], ['write', t[0], 'a', t[2]], ['commit'], ['undo2']]
        + ([['write', t[0], 'a', t[1]], ['commit']] if t[3] else []) + [['pack', t[4]], ['read', t[0]], ['observe', True]] + t[5])
    return st.fixed_dictionaries({'mode': st.just('blob'), 'kind': st.sampled_from(['bmap', 'bmap', 'fs', 'fs', 'fs', 'bfs', 'bfs', 'fs-nokeep', 'fs-nokeep']),
                                  'ops': st.one_of(free, free.map(list), phased)})


def execute_blob(case):
    from checks import c13_blobs
    out = Outcome()
    out.evals = 0
    clock.install()
    locks.install()
    clock.reset()
    d = newdir()
    w = c13_blobs.BlobWorld(case['kind'], d, out, prop=PROPERTY)
    try:
        for op in (['create', 0, 2], ['create', 1, 3], ['commit']):
            w.step(op)
        for op in case['ops']:
            w.step(op)
            clock.CLOCK.advance(0.25)
            out.evals += 1
            if out.failures:
                break
    finally:
        w.close()
    out.label('blob-storage', 'blob-' + case['kind'], *['blob-' + x for x in w.labels])
    out.nontrivial = 'pack-removed-blob-file' in w.labels
    return out


def refs_of(data):
    """(strong oids, all refs as Ref) of a harness record"""
    if data is None:
        return [], []
    _, state = records.parse_record(data)
    strong, allrefs = [], []
    for r in state.get('refs', []):
        pid = r[1]
        if isinstance(pid, tuple) and isinstance(pid[0], bytes):
            strong.append(pid[0])
            allrefs.append(records.Ref(pid[0], 'oc'))
        elif isinstance(pid, bytes):
            strong.append(pid)
            allrefs.append(records.Ref(pid, 'o'))
        elif isinstance(pid, tuple) and pid[0] == 'w':
            allrefs.append(records.Ref(pid[1][0], 'w'))
    return strong, allrefs


class GraphRunner(programs.StorageRunner):
    """graph-aware storage programs; `lead` is the runner whose decisions (targets) the twin repeats"""

    def __init__(self, *a, **kw):
        super().__init__(*a, **kw)
        self.excluded = 0
        self.max_stop = None
        self.next_oid = 0
        self.no_del = False     # after a pack garbage may be gone: not touched any more

    def reachable(self, state):
        """oids reachable from the root through strong references in `state` {oid: (tid, data)}"""
        seen = set()
        todo = [Z64]
        while todo:
            o = todo.pop()
            if o in seen or o not in state:
                continue
            seen.add(o)
            todo.extend(refs_of(state[o][1])[0])
        return seen

    def cur_reachable(self):
        return self.reachable(self.model.state_at())

    def init_root(self):
        from ZODB.Connection import TransactionMetaData
        t = TransactionMetaData()
        self.storage.tpc_begin(t)
        data = records.make_record(self.new_uid())
        self.storage.store(Z64, Z64, data, '', t)
        self.storage.tpc_vote(t)
        tid = self.storage.tpc_finish(t)
        self.model.add(Txn(tid, ' ', b'', b'', b'', [(Z64, data)]))
        self.oids.append(Z64)
        self.clock.advance(1.0)

    def gtxn(self, recs):
        """plan the whole transaction on the model, then store every touched object once"""
        s = self.storage
        from ZODB.Connection import TransactionMetaData
        state = self.model.state_at()
        reachset = self.reachable(state)
        reach = sorted(reachset)
        if not reach:
            return
        garbage = sorted(o for o in state if o not in reachset)
        new_refs = {}       # oid -> planned Ref list
        new_oids = []
        deleted = []

        def refs(oid):
            if oid in new_refs:
                return new_refs[oid]
            return refs_of(state[oid][1])[1] if oid in state else []

        for r in recs:
            k = r[0]
            if k == 'gnewrefp':
                # a new object below an existing one, itself referring to an (older) existing object
                parent, tgt = self.oids[r[1] % len(self.oids)], self.oids[r[2] % len(self.oids)]
                if parent not in reachset or tgt not in state:
                    continue
                self.next_oid += 1
                oid = p64(self.next_oid)
                new_oids.append(oid)
                new_refs[oid] = [records.Ref(tgt, r[3])]
                new_refs[parent] = refs(parent) + [records.Ref(oid, r[3])]
                continue
            if k in ('gnewp', 'unlinkp', 'updp'):
                # absolute addressing by creation order (phased generator); unreachable -> no-op
                target = self.oids[r[1] % len(self.oids)]
                if target not in reachset:
                    continue
                r = [k[:-1], reach.index(target)] + list(r[2:])
                k = r[0]
            if k == 'gnew':
                parent = reach[r[1] % len(reach)]
                # harness-numbered ids: never reused, identical on the packing storage and its twin
                self.next_oid += 1
                oid = p64(self.next_oid)
                new_oids.append(oid)
                new_refs[oid] = []
                new_refs[parent] = refs(parent) + [records.Ref(oid, r[2])]
            elif k == 'link':
                a_, b_ = reach[r[1] % len(reach)], reach[r[2] % len(reach)]
                new_refs[a_] = refs(a_) + [records.Ref(b_, r[3])]
            elif k == 'unlink':
                a_ = reach[r[1] % len(reach)]
                rr = list(refs(a_))
                if rr:
                    del rr[r[2] % len(rr)]
                    new_refs[a_] = rr
                    self.labels.add('unlink')
            elif k == 'upd':
                a_ = reach[r[1] % len(reach)]
                new_refs[a_] = list(refs(a_))
            elif k == 'updg' and garbage and not self.no_del:
                a_ = garbage[r[1] % len(garbage)]
                if a_ not in deleted and not any(ref not in state for ref in refs_of(state[a_][1])[0]):
                    new_refs[a_] = list(refs(a_))
                    self.labels.add('garbage-object-stored-again')
            elif k == 'del' and self.kind.startswith('fs') and garbage and not self.no_del:
                # deleteObject is the external garbage collector's API: only unreferenced objects
                g = garbage[r[1] % len(garbage)]
                if g not in deleted and g not in new_refs:
                    deleted.append(g)
        if not new_refs and not deleted:
            return
        t = TransactionMetaData(b'', b'g', b'')
        s.tpc_begin(t)
        written = []
        try:
            for oid in sorted(new_refs):
                data = records.make_record(self.new_uid(), refs=new_refs[oid])
                s.store(oid, Z64 if oid in new_oids else self.cur_serial(oid), data, '', t)
                written.append((oid, data))
            for g in deleted:
                s.deleteObject(g, self.cur_serial(g), t)
                written.append((g, None))
                self.labels.add('delete')
            s.tpc_vote(t)
            tid = s.tpc_finish(t)
        except BaseException:
            s.tpc_abort(t)
            raise
        self.oids.extend(new_oids)
        self.model.add(Txn(tid, ' ', b'', b'g', b'', written))
        self.committed += 1
        self.clock.advance(1.0)

    def gundo(self, picks):
        """undo transactions committed after the last pack time; returns outcome"""
        from ZODB.Connection import TransactionMetaData
        from ZODB.POSException import UndoError
        s = self.storage
        cands = [x for x in reversed(self.model.txns)
                 if x.tid != self.model.txns[0].tid and (self.max_stop is None or x.tid > self.max_stop)]
        if not cands or 'undo' not in self.ucaps:
            return None
        targets = []
        for j in picks:
            if isinstance(j, list):      # ['abs', model transaction index]
                tg = self.model.txns[j[1] % len(self.model.txns)]
                if tg not in cands:
                    continue
            else:
                tg = cands[j % len(cands)]
            if tg not in targets:
                targets.append(tg)
        if not targets:
            return None
        self.last_touched = {oid for tg in targets for oid, _ in tg.recs}
        t = TransactionMetaData(b'', b'undo', b'')
        s.tpc_begin(t)
        pending = {}
        written = []
        verdicts = []
        try:
            for tg in targets:
                verdict, urecs = self.plan_undo(tg, pending)
                # excluded by construction: an undo that would bring back a reference to an object
                # deleted by the external-GC API (application-level inconsistency, not pack's)
                state = dict(self.model.state_at())
                for o, d in list(pending.items()) + urecs:
                    if d is None:
                        state.pop(o, None)
                    else:
                        state[o] = (None, d)
                dangling = any(ref not in state for o in self.reachable(state) for ref in refs_of(state[o][1])[0])
                # ... also inside garbage: a restored revision that refers to a deleted object
                dangling = dangling or any(ref not in state for _, d_ in urecs for ref in refs_of(d_)[0])
                if dangling:
                    self.excluded += 1
                    s.tpc_abort(t)
                    return None
                verdicts.append(verdict)
                s.undo(base64.encodebytes(tg.tid).rstrip(), t)
                for oid, data in urecs:
                    pending[oid] = data
                    written.append((oid, data))
            s.tpc_vote(t)
            tid = s.tpc_finish(t)
        except UndoError as e:
            s.tpc_abort(t)
            self.clock.advance(1.0)
            return ('refused', verdicts)
        self.model.add(Txn(tid, ' ', b'', b'undo', b'', written, 'undo'))
        self.committed += 1
        self.clock.advance(1.0)
        self.labels.add('undo')
        return ('applied', verdicts)


def protected_region(model, stop):
    """oids reachable from the root in any state at or after the pack time (model reachability)"""
    gr = GraphRunner.reachable
    prot = set()
    states = [model.state_at(p64(u64(stop) + 1))]
    for t in model.txns:
        if t.tid > stop:
            states.append(model.state_at(p64(u64(t.tid) + 1)))
    for stt in states:
        prot |= gr(None, stt)
    return prot


def undo_only_outside_protected(A, B, stop):
    """the transactions just asked to be undone wrote only objects that are not reachable from the root in any state
    from the pack time on.  The statement protects objects reachable from the root; for an object outside that region
    pack may drop the record that says it did not exist at the pack time (an external-GC deletion), after which the
    record before it counts as its previous revision and an undo of its revival decides differently - without any
    effect on a protected object"""
    if stop is None:
        return False
    touched = getattr(A, 'last_touched', set()) | getattr(B, 'last_touched', set())
    return bool(touched) and not (touched & (protected_region(A.model, stop) | protected_region(B.model, stop)))


def compare_protected(a, b, model, stop, gc, out, where, caps):
    """a: packed storage, b: unpacked twin.  Compared: (object, snapshot) pairs in which the object
    is reachable from the root in the database state of that snapshot, for snapshots after the pack
    time - exactly the region the statement protects."""
    n = 0
    reach_of = GraphRunner.reachable
    bounds = [t for t in tid_boundaries(model.tids()) if t > stop]

    def chk(name, x, y, *args):
        nonlocal n
        n += 1
        if x != y:
            out.fail((PROPERTY, name, 'packed-differs-from-twin'),
                     '%s: %s%s -> packed %s ; unpacked twin %s' % (where, name, fmt_answer(tuple(args)), fmt_answer(x), fmt_answer(y)))
            return False
        return True
    # (trailing transactions at or before the pack time that hold only garbage may be dropped)
    if model.txns and model.txns[-1].tid > stop:
        if not chk('lastTransaction', a.lastTransaction(), b.lastTransaction()):
            return n
    prot = set()
    seen_rev = set()
    last_key = None
    for t in bounds:
        state = model.state_at(t)
        key = tuple(sorted((o, v[0]) for o, v in state.items()))
        if key == last_key and t != MAXTID:
            reach = last_reach
        else:
            reach = reach_of(None, state)
        last_key, last_reach = key, reach
        prot |= reach
        for oid in sorted(reach):
            if not chk('loadBefore', q_loadBefore(a, oid, t), q_loadBefore(b, oid, t), oid, t):
                return n
            rev = (oid, state[oid][0])
            if rev not in seen_rev:
                seen_rev.add(rev)
                if not chk('loadSerial', q_loadSerial(a, oid, rev[1]), q_loadSerial(b, oid, rev[1]), oid, rev[1]):
                    return n
    cur = model.state_at()
    for oid in sorted(reach_of(None, cur)):
        if not chk('load', q_load(a, oid), q_load(b, oid), oid):
            return n
        if not chk('getTid', q_getTid(a, oid), q_getTid(b, oid), oid):
            return n
    if 'iterator' in caps:
        def restrict(txns):
            # a record is compared if its object is reachable in the state the transaction produced
            # (records of garbage are don't-care)
            res = []
            for t in txns:
                if t[0] > stop:
                    reach = reach_of(None, model.state_at(p64(u64(t[0]) + 1)))
                    res.append(t[:5] + (tuple(rec for rec in t[5] if rec[0] in reach),))
            return res
        ia = restrict(q_iterator(a)[1])
        ib = restrict(q_iterator(b)[1])
        chk('iterator-after-pack-time', tuple(ia), tuple(ib))
    if 'undoLog' in caps:
        ua = [e for e in q_undoLog(a, 0, -1000)[1] if e[0] > stop]
        ub = [e for e in q_undoLog(b, 0, -1000)[1] if e[0] > stop]
        chk('undoLog-after-pack-time', tuple(ua), tuple(ub))
    return n


def norm_gettid(x):
    return x


def revision_count(st_):
    n = 0
    it = st_.iterator()
    for t in it:
        for r in t:
            n += 1
    getattr(it, 'close', lambda: None)()
    return n


class Rand:
    """deterministic stand-in for DemoStorage.random, rewound so that the twin draws the same ids"""

    def __init__(self):
        self.i = 0

    def randint(self, a, b):
        self.i += 1
        return a + (self.i * 1000003) % (b - a)


def execute(case):
    if case.get('mode') == 'blob':
        return execute_blob(case)
    import ZODB.DemoStorage
    real_random = ZODB.DemoStorage.random
    rand = ZODB.DemoStorage.random = Rand()
    try:
        return _execute(case, rand)
    finally:
        ZODB.DemoStorage.random = real_random


def _execute(case, rand):
    from ZODB.serialize import referencesf
    out = Outcome()
    out.evals = 0
    clock.install()
    locks.install()
    clock.reset()
    kind = case['kind']
    base_kind = 'fs' if kind.startswith('fs') else kind
    da, db_ = newdir(), newdir()
    # ('fs-nokeep': the storage is told not to keep the old file and the old blobs after a pack)
    a_kw = {'pack_keep_old': False} if kind == 'fs-nokeep' else {}
    A = GraphRunner(base_kind, da, out, PROPERTY,       # packs
                    storage=programs.make_storage('fs', da, **a_kw) if a_kw else None)
    rand.i = 0
    B = GraphRunner(base_kind, db_, out, PROPERTY)      # unpacked twin
    for r in (A, B):
        r.count_queries = False
        r.ucaps = {'undo'} if base_kind == 'fs' else set()
    caps = programs.CAPS[base_kind]
    stop = None
    gc_used = False
    last_gc = None
    done_stop = {True: None, False: None}      # latest pack time already packed to, per gc setting
    ntx_at_last_pack = -1
    removed_something = False
    txn_after_pack = False
    try:
        t0 = clock.CLOCK.now
        r0 = rand.i
        A.init_root()
        clock.CLOCK.now = t0
        rand.i = r0
        B.init_root()
        for op in case['prog']:
            k = op[0]
            t0 = clock.CLOCK.now
            r0 = rand.i
            if k in ('gtxn', 'gundo'):
                ra = A.gtxn(op[1]) if k == 'gtxn' else A.gundo(op[1])
                t1 = clock.CLOCK.now
                clock.CLOCK.now = t0
                rand.i = r0
                rb = B.gtxn(op[1]) if k == 'gtxn' else B.gundo(op[1])
                if clock.CLOCK.now != t1 or A.model.tids() != B.model.tids():
                    if k == 'gundo' and ra != rb:
                        if undo_only_outside_protected(A, B, stop):
                            out.label('undo-outcome-differs-for-never-reachable-object')
                            break
                        if stop is not None and ra and rb and ra[0] == 'applied' and rb[0] == 'refused':
                            # "still undoable" is kept (the packed storage accepts what the unpacked copy refuses: the
                            # record that said the object did not exist at the pack time is gone, DESIGN 10.2 obs. 11);
                            # the two histories part here
                            out.label('undo-accepted-by-packed-storage-only')
                            break
                        out.fail((PROPERTY, 'undo-after-pack', 'outcome-differs'),
                                 'undo %r: packed storage %r, unpacked twin %r' % (op[1], ra and ra[0], rb and rb[0]))
                        break
                    out.fail((PROPERTY, 'lockstep', 'diverged'),
                             'packed storage and twin committed different transactions for %r: %r vs %r' % (
                                 op, A.model.tids()[-2:], B.model.tids()[-2:]))
                    break
                if k == 'gundo' and ra is not None:
                    if ra != rb:
                        if undo_only_outside_protected(A, B, stop):
                            out.label('undo-outcome-differs-for-never-reachable-object')
                            break
                        if stop is not None and ra[0] == 'applied' and rb and rb[0] == 'refused':
                            out.label('undo-accepted-by-packed-storage-only')
                            break
                        out.fail((PROPERTY, 'undo-after-pack', 'outcome-differs'),
                                 'undo %r: packed storage %r, unpacked twin %r' % (op[1], ra, rb))
                        break
                    out.label('undo-' + ra[0])
                    # the unpacked twin also has to follow the undo model
                    if ra[0] == 'refused' and all(v == 'ok' for v in ra[1]):
                        out.fail((PROPERTY, 'undo', 'refused'), 'undo %r refused on both; the model says it applies' % (op[1],))
                        break
                    if ra[0] == 'applied' and 'error' in ra[1]:
                        out.fail((PROPERTY, 'undo', 'accepted'), 'undo %r accepted on both; the model says UndoError' % (op[1],))
                        break
                if stop is not None and len(A.model.txns) and A.model.txns[-1].tid > stop:
                    txn_after_pack = True
            elif k == 'reopen' and base_kind == 'fs':
                A.reopen(op[1], **a_kw)
                B.reopen(op[1])
            elif k == 'pack':
                # small indices = recent pack times (more history before the pack time)
                if isinstance(op[1], list):     # ['abs', k]: just after the k-th transaction
                    t = A.pack_time(1 + op[1][1] % len(A.model.tids()))
                else:
                    t = A.pack_time(len(A.model.tids()) - op[1] % (len(A.model.tids()) + 1))
                if op[2] >= 4:
                    # exactly a transaction's time: the harness clock ticks in whole seconds, so the
                    # time of an unbumped tid converts back to the very same tid
                    from persistent.TimeStamp import TimeStamp
                    tt = tid_of_time(t)
                    cand = [x for x in A.model.tids() if x <= tt]
                    if cand:
                        exact = round(TimeStamp(cand[-1]).timeTime())
                        if tid_of_time(exact) == cand[-1]:
                            t = exact
                            out.label('pack-time-exactly-a-tid')
                gc = bool(op[2] % 2) if kind != 'fs-nogc' else False
                if kind == 'fs' and op[2] < 2:
                    gc = True
                new_stop = tid_of_time(t)
                if new_stop == Z64:
                    continue
                if any(x.kind == 'undo' and x.tid > new_stop for x in A.model.txns):
                    out.label('undo-record-across-pack-time' + ('-gc' if gc else ''))
                absent_before = [o for o in sorted(B.model.oids()) if q_load(A.storage, o) == 'POSKeyError']
                before_bytes = file_hash(da) if base_kind == 'fs' else None
                before_listing = file_listing(da) if base_kind == 'fs' else None
                n_before = revision_count(A.storage)
                try:
                    if base_kind == 'demo':
                        A.storage.pack(t, referencesf)
                        gc = True
                    else:
                        A.storage.pack(t, referencesf, gc=gc)
                    out.label('pack-gc' if gc else 'pack-nogc')
                    packed_ok = True
                except Exception as e:
                    name = type(e).__name__
                    if name not in ('FileStorageError', 'PackError', 'ValueError', 'AssertionError', 'RedundantPackWarning'):
                        raise
                    if name == 'AssertionError':
                        import traceback
                        if 'fspack.py' not in ''.join(traceback.format_tb(e.__traceback__)[-1:]):
                            raise
                    out.label('pack-raised-' + name + ('-gc' if gc else '-nogc'))
                    packed_ok = False
                    if name in ('PackError', 'AssertionError') and gc:
                        # On the unchanged tree a garbage-collecting pack of a healthy database never
                        # fails; without gc the packer cannot carry undo records pointing across the
                        # pack time (observed limitation, DESIGN 10) and refuses - allowed.
                        out.fail((PROPERTY, 'pack', 'failed-on-healthy-database', name),
                                 'pack(gc=True) raised %s: %s' % (name, e))
                        break
                clock.CLOCK.advance(1.0)
                if a_kw and os.path.exists(os.path.join(da, 'Data.fs.old')):
                    out.fail((PROPERTY, 'pack', 'old-file-kept-against-the-option'),
                             'pack_keep_old=False: Data.fs.old exists after pack (%s)' % ('completed' if packed_ok else 'failed'))
                    break
                if packed_ok:
                    # (a pack with garbage collection also does everything a pack without it does)
                    # ... and no transaction since)
                    covered = [x[0] for x in ([done_stop[True]] if gc else [done_stop[True], done_stop[False]])
                               if x is not None and x[1] == len(A.model.txns)]
                    if (covered and new_stop <= max(covered) and base_kind == 'fs'
                            and ntx_at_last_pack == len(A.model.txns)):
                        out.label('repack-not-later')
                        if file_hash(da) != before_bytes and only_uncreation_records_dropped(before_listing, file_listing(da)):
                            # observed (DESIGN 10.2 obs. 8): an undo record that points back to a deletion record counts
                            # as data for the first pack and - once copied as a plain un-creation record - as "object
                            # absent" for the next: the repeated pack drops it.  Only un-creation records disappear.
                            out.label('repack-dropped-uncreation-record')
                        elif file_hash(da) != before_bytes:
                            # allowed only if nothing observable changed; bytes may not change for an
                            # earlier/equal time (statement: no-op or refused)
                            out.fail((PROPERTY, 'repack', 'file-changed'),
                                     'packing again to a time not later than the previous pack changed the data file')
                            break
                    if revision_count(A.storage) < n_before:
                        removed_something = True
                        out.label('pack-removed-revisions')
                    if stop is None or new_stop > stop:
                        stop = new_stop
                        A.max_stop = B.max_stop = stop
                    gc_used = gc_used or gc
                    last_gc = gc
                    if done_stop[gc] is None or new_stop > done_stop[gc][0] or done_stop[gc][1] != len(A.model.txns):
                        done_stop[gc] = (new_stop, len(A.model.txns))
                    ntx_at_last_pack = len(A.model.txns)
                    A.no_del = B.no_del = True
                if base_kind == 'fs' and any(x in A.labels for x in ()):
                    pass
            out.evals += 1
            # ---- oracles after every step
            B.check('unpacked twin vs history model')       # the reference itself is right (C04)
            if out.failures:
                break
            if stop is None:
                A.check('packing storage before any pack')
            else:
                out.evals += compare_protected(A.storage, B.storage, B.model, stop, gc_used, out,
                                               'after %s' % k, caps)
                # pack never brings anything back: an object that did not load before the pack (deleted, un-created) does
                # not load after it (the reverse - garbage gone - is pack's business)
                for oid in (absent_before if k == 'pack' else ()):
                    if q_load(A.storage, oid) != 'POSKeyError':
                        out.fail((PROPERTY, 'resurrected-object', 'after-pack'),
                                 'object %r did not exist before this pack (deleted or un-created) and loads after it: %r' % (
                                     oid, q_load(A.storage, oid)))
                        break
                if out.failures:
                    break
                # no dangling references in the current state
                for oid in sorted(A.cur_reachable() if False else GraphRunner.reachable(None, B.model.state_at())):
                    if q_load(A.storage, oid) == 'POSKeyError':
                        out.fail((PROPERTY, 'dangling-reference', 'after-pack'),
                                 'object %r is reachable from the root in the current state but does not load' % oid)
                        break
            if out.failures:
                break
    finally:
        A.close()
        B.close()
    out.label(kind, *A.labels)
    out.nontrivial = removed_something and txn_after_pack
    out.excluded = A.excluded
    return out


def tid_of_time(t):
    from persistent.TimeStamp import TimeStamp
    return TimeStamp(*(_time.gmtime(t)[:5] + (t % 60,))).raw()


def file_listing(d):
    from ZODB.FileStorage import FileIterator
    it = FileIterator(os.path.join(d, 'Data.fs'))
    try:
        return [(t.tid, t.status, [(r.oid, r.data) for r in t]) for t in it]
    finally:
        it.close()


def only_uncreation_records_dropped(before, after):
    """the listing `after` is `before` minus some records without data (and the transactions left empty by that)"""
    b = [(tid, oid, data) for tid, _, recs in before for oid, data in recs]
    a = [(tid, oid, data) for tid, _, recs in after for oid, data in recs]
    gone = [x for x in b if x not in a]
    return bool(gone) and all(x[2] is None for x in gone) and [x for x in b if x in a] == a


def file_hash(d):
    p = os.path.join(d, 'Data.fs')
    with open(p, 'rb') as f:
        return hashlib.sha1(f.read()).hexdigest()


LEVEL_TEXT = ('A packing storage and an unpacked twin execute the same generated graph history with identical transaction ids; '
              'after every step all queries on the protected region (objects reachable from the root in any state from the pack '
              'time on, by the generator\'s own reference bookkeeping), later transactions, undo log and the outcome of later undos '
              'must agree, on FileStorage (gc on/off), MappingStorage and DemoStorage, with repeated and earlier packs and reopens.')
LEVEL_NOTE = ('Trusted: harness record pickler/parser for references (independent of referencesf), the twin executed with the same '
              'harness clock. Pack may fail (raise) leaving the region unchanged: counted, not a violation.')
