"""C04 — the storage answers every revision query from the committed history."""
import os

from hypothesis import strategies as st

from vlib import clock, locks, programs
from vlib.driver import Outcome, newdir

PROPERTY = 'C04'
LEVEL = 'exploration'
TECH = 'model-based PBT: generated storage programs vs reference history model (query battery after every step)'
RULE = ('cases = generated raw-API storage programs (store/delete/undo/restore/abort/reopen/clock anomalies, '
        'boundary metadata and record sizes) on FileStorage, MappingStorage, DemoStorage (empty base, changes in a mapping '
        'or file storage; and over a mapping/file base that already holds a generated history); after every step the '
        'whole query battery (loadBefore at every tid boundary x every oid, load, loadSerial, getTid, history, '
        'iterator and ranges, undoLog, record_iternext, lastTransaction, len) is compared with the model; '
        'evaluations = individual queries compared; non-trivial = program with >= 3 committed transactions '
        'and at least one undo, deletion, restore, reopen or clock anomaly; distinct by program hash; later additions: deleteObject and store with the serial of an older revision (also onto un-created objects), checkCurrentSerialInTransaction with current and old serials, undoLog with a filter, reads through every pooled file handle while a transaction is voted')
ASSUMPTIONS = ['tids are recorded from the storage, not predicted; only order and monotonicity are required',
               'for an un-created object both None and POSKeyError are accepted from loadBefore',
               'history() compared on (tid, user, description)']
BUDGET = {'quick': {'examples': 6000, 'workers': 8},
          'thorough': {'examples': 40000, 'workers': 16}}
KINDS = ['fs', 'fs', 'fs', 'mapping', 'demo', 'demo-fs', 'demo-over-mapping', 'demo-over-fs']


def strategy(tier):
    n = 12 if tier == 'quick' else 25

    def build(k):
        if k.startswith('demo-over-'):
            # a demo storage over a base that already has a history: the answers are those of the
            # concatenated history (objects of the base rewritten once, twice, ... in the changes)
            bk = k[len('demo-over-'):]
            return st.fixed_dictionaries({'kind': st.just(k),
                                          'base_prog': programs.program_strategy(bk, max(3, n // 2), {'stale'}),
                                          'prog': programs.program_strategy('demo', n)})
        return st.fixed_dictionaries({'kind': st.just(k), 'prog': programs.program_strategy(k, n)})
    return st.sampled_from(KINDS).flatmap(build)


def execute_over(case, out):
    from ZODB.DemoStorage import DemoStorage
    from vlib.model import Battery
    d = newdir()
    bk = case['kind'][len('demo-over-'):]
    br = programs.StorageRunner(bk, d, out, PROPERTY)
    r = None
    try:
        br.run(case['base_prog'])
        if out.failures:
            return br
        clock.CLOCK.advance(2.0)
        demo = DemoStorage(base=br.storage)
        r = programs.StorageRunner('demo', d, out, PROPERTY, storage=demo, model=br.model.copy())
        r.oids = list(br.oids)
        r.uid = br.uid + 1000
        r.battery = Battery(programs.CAPS['demo'])
        r.skip_uncreated = True
        r.labels |= br.labels
        nbase = len(br.model.txns)
        r.run(case['prog'])
        base_oids = set(br.model.oids())
        writes = {}
        for t in r.model.txns[nbase:]:
            for oid, _ in t.recs:
                if oid in base_oids:
                    writes[oid] = writes.get(oid, 0) + 1
        if writes:
            r.labels.add('base-object-rewritten-in-changes')
        if any(v >= 2 for v in writes.values()):
            r.labels.add('base-object-rewritten-twice')
        return r
    finally:
        if r is not None:
            r.close()       # (closes the base too)
        else:
            br.close()


def execute(case):
    out = Outcome()
    out.evals = 0
    clock.install()
    locks.install()
    clock.reset()
    if case['kind'].startswith('demo-over-'):
        r = execute_over(case, out)
        out.label(case['kind'], *r.labels)
        out.nontrivial = r.committed >= 3 and 'base-object-rewritten-in-changes' in r.labels
        return out
    d = newdir()
    r = programs.StorageRunner(case['kind'], d, out, PROPERTY)

    import contextlib

    def hold_readers(storage, n):
        """a FileStorage serves concurrent readers from a pool of read handles; holding n of them makes the next
        load use the (n+1)-th - or open a new one, as for one more concurrent reader thread"""
        stack = contextlib.ExitStack()
        pool = getattr(storage, '_files', None)
        if pool is not None and hasattr(pool, 'get'):
            for _ in range(n):
                stack.enter_context(pool.get())
        return stack

    def pool_size(storage):
        pool = getattr(storage, '_files', None)
        return len(getattr(pool, '_files', ())) if pool is not None else 0

    def probe(runner, t, phase):
        # ordinary reads while a transaction is stored / voted: through the pooled handle, and (voted) through a
        # brand-new handle whose first read happens now
        for oid in sorted(runner.model.oids())[-3:]:
            for n in ([0] if phase != 'voted' else [0, min(pool_size(runner.storage), 3)]):
                with hold_readers(runner.storage, n):
                    try:
                        runner.storage.load(oid, '')
                    except KeyError:
                        pass
    r.probe = probe

    def check_second_reader():
        from vlib.model import q_load, q_loadBefore, MAXTID
        oids = sorted(r.model.oids())[-4:]
        first = [(q_load(r.storage, oid), q_loadBefore(r.storage, oid, MAXTID)) for oid in oids]
        for n in range(1, min(pool_size(r.storage), 4)):
            with hold_readers(r.storage, n):
                other = [(q_load(r.storage, oid), q_loadBefore(r.storage, oid, MAXTID)) for oid in oids]
            out.evals += 1
            if other != first:
                bad = [i for i in range(len(oids)) if other[i] != first[i]][0]
                out.fail((PROPERTY, 'another-read-handle', 'differs'),
                         'load/loadBefore(%r) through read handle #%d of the pool -> %r ; through the first %r' % (
                             oids[bad], n + 1, other[bad], first[bad]))
                return
    try:
        for op in case['prog']:
            r.just_aborted_after_vote = False
            r.step(op)
            # (right after an abort that followed a vote the battery is left out in half of the cases: what the
            # storage's read handles saw during the vote must not answer queries after the NEXT commit either)
            if op[0] != 'clock' and not (r.just_aborted_after_vote and len(case['prog']) % 2):
                r.check()
                if not out.failures and case['kind'].startswith('fs'):
                    check_second_reader()
            if out.failures:
                break
        if case['kind'].startswith('fs') and not out.failures:
            # closing and reopening changes no answer (with and without the index file)
            r.reopen(True)
            r.check('after final reopen')
            r.reopen(False)
            r.check('after final reopen without index')
    finally:
        r.close()
    out.label(case['kind'], *r.labels)
    interesting = r.labels & {'undo', 'delete', 'restore', 'reopen', 'reopen-noindex', 'clock-stall', 'clock-back'}
    out.nontrivial = r.committed >= 3 and bool(interesting)
    return out


LEVEL_TEXT = ('Generated histories are executed on the real storages and on a ~200-line list-of-transactions model; '
              'every query the statement names is compared after every step, for every oid (plus absent ones) and '
              'every tid boundary around each revision. Exploration of histories up to 12 (quick) / 25 (thorough) steps.')
LEVEL_NOTE = ('Trusted: the reference model (vlib/model.py), harness clock bound as `time` in the ZODB modules. '
              'No pack in C04 programs (C07). DemoStorage over a non-empty base: query answers only (base immutability, stacking: C16).')
