"""C04 — the storage answers every revision query from the committed history."""
import os

from hypothesis import strategies as st

from vlib import clock, locks, programs
from vlib.driver import Outcome, newdir

PROPERTY = 'C04'
LEVEL = 'exploration'
TECH = 'model-based PBT: generated storage programs vs reference history model (query battery after every step)'
RULE = ('cases = generated raw-API storage programs (store/delete/undo/restore/abort/reopen/clock anomalies, '
        'boundary metadata and record sizes) on FileStorage, MappingStorage, DemoStorage; after every step the '
        'whole query battery (loadBefore at every tid boundary x every oid, load, loadSerial, getTid, history, '
        'iterator and ranges, undoLog, record_iternext, lastTransaction, len) is compared with the model; '
        'evaluations = individual queries compared; non-trivial = program with >= 3 committed transactions '
        'and at least one undo, deletion, restore, reopen or clock anomaly; distinct by program hash')
ASSUMPTIONS = ['tids are recorded from the storage, not predicted; only order and monotonicity are required',
               'for an un-created object both None and POSKeyError are accepted from loadBefore',
               'history() compared on (tid, user, description)']
BUDGET = {'quick': {'examples': 3000, 'workers': 8},
          'thorough': {'examples': 25000, 'workers': 16}}
KINDS = ['fs', 'fs', 'fs', 'mapping', 'demo', 'demo-fs']


def strategy(tier):
    n = 12 if tier == 'quick' else 25
    return st.sampled_from(KINDS).flatmap(
        lambda k: st.fixed_dictionaries({'kind': st.just(k), 'prog': programs.program_strategy(k, n)}))


def execute(case):
    out = Outcome()
    out.evals = 0
    clock.install()
    locks.install()
    clock.reset()
    d = newdir()
    r = programs.StorageRunner(case['kind'], d, out, PROPERTY)
    try:
        r.run(case['prog'])
        if case['kind'].startswith('fs') and not out.failures:
            # closing and reopening changes no answer (with and without the index file)
            r.reopen(True)
            r.check('after final reopen')
            r.reopen(False)
            r.check('after final reopen without index')
    finally:
        r.close()
    out.label(case['kind'], *r.labels)
    interesting = r.labels & {'undo', 'delete', 'restore', 'reopen', 'reopen-noindex', 'clock-stall', 'clock-back'}
    out.nontrivial = r.committed >= 3 and bool(interesting)
    return out


LEVEL_TEXT = ('Generated histories are executed on the real storages and on a ~200-line list-of-transactions model; '
              'every query the statement names is compared after every step, for every oid (plus absent ones) and '
              'every tid boundary around each revision. Exploration of histories up to 12 (quick) / 25 (thorough) steps.')
LEVEL_NOTE = ('Trusted: the reference model (vlib/model.py), harness clock bound as `time` in the ZODB modules. '
              'No pack in C04 programs (C07). DemoStorage here has an empty base (two-layer behaviour is C16).')
