"""C18 — repozo recover reproduces the backed-up data file byte for byte."""
import contextlib
import gzip
import io
import os

from hypothesis import strategies as st

from vlib import clock, locks, records
from vlib.driver import Outcome, newdir
from vlib.model import Z64

PROPERTY = 'C18'
LEVEL = 'exploration'
TECH = 'stateful PBT: generated commit/pack/in-progress-transaction/backup/recover/verify/damage programs vs snapshots taken by the harness'
RULE = ('cases = generated programs over one live Data.fs: commits, packs, a transaction left between vote and finish while a '
        'backup runs, backup{full, quick, gzip, kill-old} at strictly increasing times, recover{date = a backup time or in '
        'between, with-verify}, verify{quick}, and finally one damage {delete, truncate at k, flip byte k} of a file of the '
        'current backup chain followed by verify; oracle: at each backup the harness snapshots Data.fs up to the end of the '
        'last complete transaction (known from the writer, not from repozo); recover output is byte-identical to the snapshot '
        'of the last backup not later than the date that the repository still holds; the restored index loads and equals '
        'position and map of a fresh scan; verify passes on the intact repository and fails after every damage that changes '
        'size or (uncompressed) content, quick verify for sizes; evaluations = recover/verify operations checked; non-trivial '
        '= >= 2 backups of which one incremental, with a pack or an in-progress transaction between them, then a recover at a '
        'date before the last backup; distinct by program hash')
ASSUMPTIONS = ['repozo is driven through do_backup/do_recover/do_verify with an options object; the time comes from options.test_now (its own test '
               'hook) or, in half of the cases, from a clock bound as repozo.time that advances one second with every reading',
               'a flipped byte in a gzip file that leaves the decompressed stream identical is not a content change']
BUDGET = {'quick': {'examples': 16000, 'workers': 8},
          'thorough': {'examples': 100000, 'workers': 16}}


def strategy(tier):
    n = 14 if tier == 'quick' else 25
    op = st.one_of(
        st.tuples(st.just('commit'), st.integers(1, 3), st.sampled_from([0, 5, 300, 9000])),
        st.tuples(st.just('commit'), st.integers(1, 2), st.sampled_from([0, 5, 300])),
        st.tuples(st.just('pack')),
        st.tuples(st.just('inflight'), st.sampled_from(['vote', 'vote', 'finish', 'abort'])),
        st.tuples(st.just('backup'), st.booleans(), st.booleans(), st.booleans(), st.sampled_from([False, False, True])),
        st.tuples(st.just('backup'), st.just(False), st.booleans(), st.booleans(), st.just(False)),
        st.tuples(st.just('backup'), st.just(False), st.just(True), st.booleans(), st.just(False)),
        st.tuples(st.just('recover'), st.sampled_from([0, 0, 0, 1, 1, 2, 3, 5, 8]), st.booleans(), st.booleans()),
        st.tuples(st.just('recover'), st.just(0), st.booleans(), st.booleans()),
        st.tuples(st.just('verify'), st.booleans()),
    ).map(list)
    @st.composite
    def phased(draw):
        """commits, a backup, a backup while a transaction is in progress, optionally a pack, growth,
        another backup, recover: the shape the quantifier names"""
        b = st.booleans()
        commit = st.tuples(st.just('commit'), st.integers(1, 3), st.sampled_from([5, 300, 9000])).map(list)
        prog = draw(st.lists(commit, min_size=1, max_size=3))
        quick = draw(b)
        prog.append(['backup', draw(b), quick, draw(b), False])
        prog += draw(st.lists(commit, max_size=1))
        prog.append(['inflight', 'vote'])
        prog.append(['backup', draw(st.sampled_from([False, False, True])), draw(b) or quick, draw(b), False])
        for _ in range(draw(st.sampled_from([0, 0, 1, 2]))):
            # further backups while the same transaction is still in progress (several empty increments in a row)
            prog.append(['backup', False, draw(b) or quick, draw(b), False])
        prog.append(['inflight', draw(st.sampled_from(['finish', 'abort']))])
        if draw(b):
            prog.append(['pack'])
        prog += draw(st.lists(commit, min_size=1, max_size=3))
        prog.append(['backup', False, draw(b) or quick, draw(b), draw(st.sampled_from([False, False, True]))])
        prog.append(['recover', draw(st.sampled_from([0, 0, 1, 2])), draw(b), True])
        prog += draw(st.lists(op, max_size=4))
        return prog
    return st.fixed_dictionaries({
        'ops': st.one_of(st.lists(op, min_size=4, max_size=n), phased()),
        'damage': st.tuples(st.sampled_from(['delete', 'truncate', 'flip', 'none']), st.integers(0, 5), st.integers(0, 100000),
                            st.booleans()).map(list),
        # repozo reads the (harness) clock itself and every reading is a second later, instead of its test_now hook
        'ticking': st.booleans(),
    })


class Options:
    mode = None
    verbose = False
    full = False
    quick = False
    gzip = False
    killold = False
    withverify = False
    date = None
    output = None

    def __init__(self, **kw):
        self.__dict__.update(kw)


def date_str(t):
    return '%04d-%02d-%02d-%02d-%02d-%02d' % t


def execute(case):
    import ZODB.scripts.repozo as repozo
    from ZODB.Connection import TransactionMetaData
    from ZODB.FileStorage import FileStorage
    from ZODB.fsIndex import fsIndex
    from ZODB.serialize import referencesf
    out = Outcome()
    out.evals = 0
    clock.install()
    locks.install()
    clock.reset()
    d = newdir()
    path = os.path.join(d, 'Data.fs')
    repo = os.path.join(d, 'repo')
    os.mkdir(repo)
    fs = FileStorage(path)
    oids = []
    uid = [0]
    inflight = [None]
    committed_end = [4]
    tick = [0]
    backups = []          # (time tuple, snapshot bytes, kind)
    labels = set()
    events_between = set()
    nt = False
    sink = io.StringIO()

    def commit(n, pad):
        t = TransactionMetaData()
        fs.tpc_begin(t)
        seen = set()
        for _ in range(n):
            uid[0] += 1
            if oids and uid[0] % 2 and oids[uid[0] % len(oids)] not in seen:
                oid = oids[uid[0] % len(oids)]
                try:
                    serial = fs.load(oid, '')[1]
                except KeyError:
                    serial = Z64        # created by an aborted transaction
            else:
                oid = fs.new_oid()
                oids.append(oid)
                serial = Z64
            seen.add(oid)
            fs.store(oid, serial, records.make_record(uid[0], pad=pad), '', t)
        return t

    def now():
        tick[0] += 1
        return (2021, 3, 4, 5, tick[0] // 60, tick[0] % 60)

    def repo_files():
        return sorted(f for f in os.listdir(repo) if repozo.is_data_file(f))

    try:
        for op in case['ops']:
            k = op[0]
            clock.CLOCK.advance(1.0)
            if k == 'commit':
                if inflight[0] is not None:
                    continue
                t = commit(op[1], op[2])
                fs.tpc_vote(t)
                fs.tpc_finish(t)
                committed_end[0] = os.path.getsize(path)
            elif k == 'pack':
                if inflight[0] is not None:
                    continue
                try:
                    fs.pack(clock.CLOCK.now, referencesf, gc=False)
                    labels.add('pack')
                    events_between.add('pack')
                except Exception as e:
                    if type(e).__name__ != 'FileStorageError':
                        raise
                committed_end[0] = os.path.getsize(path)
            elif k == 'inflight':
                if op[1] == 'vote' and inflight[0] is None:
                    t = commit(1, 300)
                    fs.tpc_vote(t)
                    inflight[0] = t
                    labels.add('in-progress-transaction')
                elif op[1] == 'finish' and inflight[0] is not None:
                    fs.tpc_finish(inflight[0])
                    inflight[0] = None
                    committed_end[0] = os.path.getsize(path)
                elif op[1] == 'abort' and inflight[0] is not None:
                    fs.tpc_abort(inflight[0])
                    inflight[0] = None
            elif k == 'backup':
                before = set(repo_files())
                if case.get('ticking'):
                    # no test hook: repozo reads the clock itself, and the clock moves on by one second with
                    # every reading (a backup of a file of realistic size takes longer than that)
                    import time as real_time
                    first = []

                    class Ticking:
                        def gmtime(self_):
                            t = now()
                            first.append(t)
                            return t + (0, 0, 0)

                        def __getattr__(self_, name):
                            return getattr(real_time, name)
                    opts = Options(mode=repozo.BACKUP, file=path, repository=repo, full=op[1], quick=op[2], gzip=op[3],
                                   killold=op[4])
                    repozo.time = Ticking()
                    try:
                        with contextlib.redirect_stdout(sink), contextlib.redirect_stderr(sink):
                            repozo.do_backup(opts)
                    finally:
                        repozo.time = real_time
                    # the time of the backup is the one in the names of the files it wrote
                    names = sorted(set(repo_files()) - before)
                    tnow = tuple(int(x) for x in names[0].split('.')[0].split('-')[:6]) if names else (first[0] if first else now())
                    labels.add('clock-ticks-during-backup')
                else:
                    tnow = now()
                    opts = Options(mode=repozo.BACKUP, file=path, repository=repo, full=op[1], quick=op[2], gzip=op[3],
                                   killold=op[4], test_now=tnow)
                    with contextlib.redirect_stdout(sink), contextlib.redirect_stderr(sink):
                        repozo.do_backup(opts)
                new = set(repo_files()) - before
                with open(path, 'rb') as f:
                    snap = f.read(committed_end[0])
                kind = 'none'
                for f in new:
                    kind = 'full' if '.fs' in f and 'delta' not in f else 'incremental'
                if inflight[0] is not None:
                    events_between.add('inflight')
                    labels.add('backup-during-in-progress-transaction')
                backups.append((tnow, snap, kind, frozenset(events_between)))
                events_between.clear()
                labels.add('backup-' + kind + ('-quick' if op[2] else ''))
            elif k == 'recover':
                if not backups:
                    continue
                # date: a backup time, or between two backups
                i = len(backups) - op[1] % (len(backups) + 1)     # small values = recent dates, 0 = now
                if i == len(backups):
                    date = None
                    upto = backups[-1][0]
                else:
                    tb = backups[i][0]
                    upto = tb
                    date = date_str(tb)
                outp = os.path.join(d, 'Recovered.fs')
                for pth in (outp, outp + '.index'):
                    if os.path.exists(pth):
                        os.remove(pth)
                if op[1] % 3 == 1:
                    # what an earlier, interrupted recovery into the same name leaves behind
                    with open(outp + '.part', 'wb') as f:
                        f.write(b'left over from an interrupted recovery ' * 7)
                    out.label('recover-over-leftover-part-file')
                elif os.path.exists(outp + '.part'):
                    os.remove(outp + '.part')
                opts = Options(mode=repozo.RECOVER, repository=repo, date=date, output=outp, withverify=op[2])
                held = repo_files()
                # the last backup not later than the date that the repository still holds
                cands = [b for b in backups if b[0] <= upto]
                exp = None
                chain = [f for f in held if os.path.splitext(f)[0] <= date_str(upto)]
                fulls = [f for f in chain if os.path.splitext(f)[1] in ('.fs', '.fsz')]
                out.evals += 1
                try:
                    with contextlib.redirect_stdout(sink), contextlib.redirect_stderr(sink):
                        repozo.do_recover(opts)
                    ok = True
                except repozo.NoFiles:
                    ok = False
                if not fulls:
                    if ok:
                        out.fail((PROPERTY, 'recover', 'recovered-without-backup'), 'recover as of %s succeeded but the repository holds no full backup before it' % date)
                        break
                    continue
                if not ok:
                    out.fail((PROPERTY, 'recover', 'no-files'), 'recover as of %s raised NoFiles but %r exist' % (date, chain))
                    break
                # expected: the committed bytes at the last backup operation not later than the date
                exp_snap = cands[-1][1]
                with open(outp, 'rb') as f:
                    got = f.read()
                if exp_snap is not None and got != exp_snap:
                    first = next((j for j in range(min(len(got), len(exp_snap))) if got[j] != exp_snap[j]), min(len(got), len(exp_snap)))
                    out.fail((PROPERTY, 'recover', 'bytes-differ'),
                             'recover as of %s: %d bytes, the data file held %d committed bytes at that backup; first '
                             'difference at offset %d' % (date or 'now', len(got), len(exp_snap), first))
                    break
                # index
                idx = outp + '.index'
                if os.path.exists(idx):
                    info = fsIndex.load(idx)
                    r = FileStorage(outp, read_only=True)
                    try:
                        fresh = dict(r._index.items())
                        fresh_pos = r.getSize()
                    finally:
                        r.close()
                    os.remove(idx)
                    r = FileStorage(outp, read_only=True)
                    try:
                        scan = dict(r._index.items())
                        scan_pos = r.getSize()
                    finally:
                        r.close()
                    if info['pos'] != scan_pos or dict(info['index'].items()) != scan:
                        out.fail((PROPERTY, 'recover', 'index-differs'),
                                 'restored index (pos %r, %d oids) differs from a scan of the recovered file (pos %r, %d oids)' % (
                                     info['pos'], len(info['index']), scan_pos, len(scan)))
                        break
                else:
                    out.fail((PROPERTY, 'recover', 'no-index'), 'recover to a file restored no index')
                    break
                labels.add('recover')
                if i < len(backups) - 1 and len(backups) >= 2 and any(b[2] == 'incremental' for b in backups) and any(
                        b[3] & {'pack', 'inflight'} for b in backups):
                    nt = True
            elif k == 'verify':
                if not repo_files():
                    continue
                out.evals += 1
                opts = Options(mode=repozo.VERIFY, repository=repo, quick=op[1])
                try:
                    with contextlib.redirect_stdout(sink), contextlib.redirect_stderr(sink):
                        repozo.do_verify(opts)
                except Exception as e:
                    out.fail((PROPERTY, 'verify', 'fails-on-intact-repository'), 'verify(quick=%r) raised %r' % (op[1], e))
                    break
                labels.add('verify')
        # ---- one damage, then verify must notice
        kind, fi, pos, quick = case['damage']
        files = repo_files()
        if kind != 'none' and files and not out.failures:
            opts = Options(mode=repozo.VERIFY, repository=repo, quick=False)
            chain = [os.path.basename(f) for f in repozo.find_files(Options(repository=repo, date=None, full=False, gzip=False))] \
                if False else None
            with contextlib.redirect_stdout(sink), contextlib.redirect_stderr(sink):
                chain = [os.path.basename(f) for f in repozo.find_files(Options(repository=repo, date=None))]
            if chain:
                victim = os.path.join(repo, chain[fi % len(chain)])
                with open(victim, 'rb') as f:
                    orig = f.read()

                def content(b, name):
                    if name.endswith('z'):
                        try:
                            return gzip.decompress(b)
                        except Exception:
                            return None
                    return b
                older_full = [f for f in files if os.path.splitext(f)[1] in ('.fs', '.fsz') and f < chain[0]]
                if kind == 'delete' and victim.endswith(chain[0]) and older_full:
                    # removing a whole full backup leaves the older chain as a consistent repository:
                    # nothing records that the newer one existed (not a "missing file" verify can see)
                    content_changed = False
                elif kind == 'delete':
                    os.remove(victim)
                    size_changed = content_changed = True
                else:
                    if kind == 'truncate':
                        new = orig[:pos % max(len(orig), 1)]
                    else:
                        if not orig:
                            new = orig
                        else:
                            p = pos % len(orig)
                            new = orig[:p] + bytes([orig[p] ^ 0x20]) + orig[p + 1:]
                    with open(victim, 'wb') as f:
                        f.write(new)
                    a, b = content(orig, victim), content(new, victim)
                    content_changed = a != b
                    size_changed = b is None or len(a) != len(b)
                if content_changed:
                    out.evals += 1
                    labels.add('damage-' + kind)
                    must_fail = size_changed if quick else True
                    opts = Options(mode=repozo.VERIFY, repository=repo, quick=quick)
                    try:
                        with contextlib.redirect_stdout(sink), contextlib.redirect_stderr(sink):
                            repozo.do_verify(opts)
                        failed = False
                    except BaseException as e:
                        if isinstance(e, (KeyboardInterrupt,)):
                            raise
                        failed = True
                    if must_fail and not failed:
                        out.fail((PROPERTY, 'verify', 'damage-not-detected', kind),
                                 '%s verify passed after %s of %s (%d -> content %s)' % (
                                     'quick' if quick else 'full', kind, os.path.basename(victim), len(orig),
                                     'size changed' if size_changed else 'same size, bytes differ'))
    finally:
        try:
            if inflight[0] is not None:
                fs.tpc_abort(inflight[0])
            fs.close()
        except Exception:
            pass
    out.label(*labels)
    out.nontrivial = nt
    return out


LEVEL_TEXT = ('Generated interleavings of commits, packs, in-progress transactions and backups with all option combinations; every '
              'recover is compared byte-for-byte with the harness\'s own snapshot of the committed part of the data file at the '
              'relevant backup, the restored index with a fresh scan, and verify with the intact / damaged state of the repository.')
LEVEL_NOTE = ('Trusted: the harness snapshot (file size after the writer\'s tpc_finish returned = end of the last complete transaction). '
              'repozo runs in-process through its do_* functions.')
