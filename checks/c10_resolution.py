"""C10 — conflict resolution stores exactly the class's three-way merge."""
import os
import sys
import types

from hypothesis import strategies as st

from vlib import clock, locks
from vlib.driver import Outcome, newdir

PROPERTY = 'C10'
LEVEL = 'exploration'
TECH = 'model-based PBT with a recording resolver: arguments and stored result of every resolution vs model, all reference formats'
RULE = ('cases = generated chains of 2-4 concurrent writers (sequential interleaving, all starting from the same snapshot) '
        'to one object whose state holds a number and persistent references in every format ((oid, class), bare oid for a '
        '__getnewargs__ class, weak, cross-database), directly and inside containers, on FileStorage, DemoStorage (changes '
        'layer, and object living in the base); class variants: recording resolver, no resolver, class not importable at '
        'commit time, resolver raising ConflictError, resolver raising RuntimeError; oracle: the resolver was called once per '
        'stale commit with (state the writer started from, state now committed, state the writer wants) as the model knows '
        'them, references compared by (oid, database, weak); a fresh connection loads exactly the resolver\'s return value '
        'with every reference leading to the same object; the writer\'s connection then reads the merged state; for the '
        'unresolvable variants the commit raises ConflictError and nothing is stored; evaluations = commits checked; '
        'non-trivial = a resolution that ran with old != committed != new and >= 1 reference in the state; distinct by case hash; later additions: comparisons of the references handed to the resolver (IPersistentReference), keys whose reference format varies between states, writers that take a savepoint, an observer between the connection\'s finish and the next invalidation, two undos of one object in one transaction, states holding the object\'s own class, a resolvable class with constructor arguments, classes of referenced objects gone from an importable module')
ASSUMPTIONS = ['the module-level caches of ZODB.ConflictResolution are cleared at the top of every case',
               'the undo path of resolution is exercised numerically in C06']
BUDGET = {'quick': {'examples': 12000, 'workers': 8},
          'thorough': {'examples': 100000, 'workers': 16}}

# ('any': the format of the reference under this key depends on the generated index - one key can hold an ordinary
# reference in one state and a weak or cross-database one, to an object with the same id, in another)
REFKEYS = ['r_oc', 'r_o', 'r_w', 'r_x', 'c_oc', 'c_o', 'c_w', 'c_x', 'r_nest', 'c_nest', 'r_any', 'r_any', 'c_any']
VARIANTS = ['RCounter', 'RCounter', 'RCounter', 'NoResolver', 'Stubborn', 'Exploding', 'Missing']
MISSING_MOD = 'verif_missing_resolver_mod'


def strategy(tier):
    writer = st.fixed_dictionaries({
        'inc': st.integers(0, 5),
        'sets': st.lists(st.tuples(st.sampled_from(REFKEYS), st.integers(0, 11)), max_size=3).map(lambda l: [list(x) for x in l]),
        'minimize': st.booleans(),
        # (RCounter only) the resolver fails for this writer's state with this exception type; the writers after it
        # are resolved normally again
        'raise': st.sampled_from([None, None, None, None, 'AttributeError', 'RuntimeError', 'KeyError', 'TypeError']),
        # the writer takes a savepoint after its changes (its objects are then clean copies of what the savepoint holds)
        'savepoint': st.sampled_from([False, False, True]),
    })
    return st.fixed_dictionaries({
        'kind': st.sampled_from(['fs', 'fs', 'demo', 'demo-base']),
        'variant': st.sampled_from(VARIANTS),
        'init': st.lists(st.tuples(st.sampled_from(REFKEYS), st.integers(0, 11)), max_size=4).map(lambda l: [list(x) for x in l]),
        'writers': st.lists(writer, min_size=2, max_size=4),
        'poison': st.booleans(),
        # the classes of the objects referenced by (oid, class) references cannot be imported where the conflict is
        # resolved (a storage server without the application's code)
        'missing_targets': st.sampled_from([False, False, True]),
        'undo_first': st.sampled_from([False, False, True]),
        # the state also holds the object's own class (a value the state pickle shares with the class part of the record)
        'self_class': st.sampled_from([False, False, True]),
        # (RCounter) the class needs constructor arguments (__getnewargs__): no instance can be made without them
        'newargs': st.sampled_from([False, False, True]),
        # how the classes of referenced objects are missing where the conflict is resolved: the whole module cannot be
        # imported, or the module imports but no longer has the class
        'missing_how': st.sampled_from(['module', 'module', 'attribute']),
        'undo': st.integers(0, 3),
        # two intermediate transactions undone in ONE transaction, in this order (None: the single undo above)
        # ('-last': one of them is the newest change, whose record is the current one on disk)
        'undo2': st.sampled_from([None, None, None, 'old-first', 'new-first', 'old-first-last', 'new-first-last']),
    })


class Spy:
    """a second participant of the writer's transaction, finished after the connection: it looks at the contested object
    between the connection's tpc_finish and the end of the transaction (before the connection polls invalidations)"""

    def __init__(self, look):
        self.look = look
        self.seen = None

    def sortKey(self):
        return '~~~~~~spy'

    def tpc_begin(self, t):
        pass

    commit = tpc_vote = tpc_abort = abort = tpc_begin

    def tpc_finish(self, t):
        self.seen = self.look()


def install_missing():
    import persistent
    from vlib import vclasses
    mod = types.ModuleType(MISSING_MOD)

    class GoneCounter(persistent.Persistent):
        def _p_resolveConflict(self, old, committed, new):
            vclasses.RESOLVE_LOG.append(('missing-class-resolver-ran',))
            return new
    GoneCounter.__module__ = MISSING_MOD
    GoneCounter.__qualname__ = 'GoneCounter'
    mod.GoneCounter = GoneCounter

    class GoneNode(persistent.Persistent):
        """class of REFERENCED objects that cannot be imported where conflicts are resolved"""
    GoneNode.__module__ = MISSING_MOD
    GoneNode.__qualname__ = 'GoneNode'
    mod.GoneNode = GoneNode
    GoneCounter.Node = GoneNode
    sys.modules[MISSING_MOD] = mod
    return GoneCounter


def fmt_of(key, ti):
    f = key.split('_')[1]
    return ['oc', 'x', 'w', 'o'][ti % 4] if f == 'any' else f


def target_name(key, ti):
    """which target a reference key points to: weak and nested references share the targets of the
    strong formats (so one state can hold a weak and a strong reference to the same object)"""
    fmt = fmt_of(key, ti)
    if fmt == 'w':
        return 't_%s%d' % (('oc', 'o')[ti % 2] if not key.endswith('_any') else 'oc', ti % 3)
    if fmt == 'nest':
        return 't_oc%d' % (ti % 3)
    return 't_%s%d' % (fmt, ti % 3)


def ref_value(key, target, ti=0):
    """the Python value stored under key for the chosen target object"""
    from persistent.wref import WeakRef
    fmt = fmt_of(key, ti)
    if fmt == 'w':
        return WeakRef(target)
    if fmt == 'nest':
        return [{'k': (target, 7)}]
    return target


def canon_state(state, name_of_ref):
    """model form of a state dict: numbers as is, references as ('ref'|'weak', target name) inside
    the same container shapes"""
    def c(v):
        r = name_of_ref(v)
        if r is not None:
            return r
        if isinstance(v, dict):
            return ('dict', tuple(sorted((k, c(x)) for k, x in v.items())))
        if isinstance(v, (list, tuple)):
            return (type(v).__name__, tuple(c(x) for x in v))
        return v
    return {k: c(v) for k, v in state.items()}


def execute(case):
    import persistent
    import transaction
    import ZODB
    import ZODB.ConflictResolution as CR
    from persistent.wref import WeakRef
    from ZODB.ConflictResolution import PersistentReference
    from ZODB.DemoStorage import DemoStorage
    from ZODB.FileStorage import FileStorage
    from ZODB.MappingStorage import MappingStorage
    from ZODB.POSException import ConflictError
    from vlib import vclasses
    from vlib.vclasses import Node, NodeNA
    out = Outcome()
    out.evals = 0
    clock.install()
    locks.install()
    clock.reset()
    CR._unresolvable.clear()
    CR._class_cache.clear()
    del vclasses.RESOLVE_LOG[:]
    d = newdir()
    Gone = install_missing()
    kind, variant = case['kind'], case['variant']
    klass = {'RCounter': vclasses.RCounter, 'NoResolver': vclasses.NoResolver, 'Stubborn': vclasses.Stubborn,
             'Exploding': vclasses.Exploding, 'Missing': Gone}[variant]
    if variant == 'RCounter' and case.get('newargs'):
        klass = vclasses.RCounterNA
        out.label('resolvable-class-with-constructor-arguments')
    databases = {}
    dbs = []
    try:
        # ---- population: targets for every reference format, and the contested object
        def populate(root, root2):
            targets = {}
            for i in range(3):
                for fmt, cls in (('oc', Gone.Node if case.get('missing_targets') else Node), ('o', NodeNA)):
                    t = cls('na') if cls is NodeNA else cls()
                    t.name = 't_%s%d' % (fmt, i)
                    root[t.name] = t
                    targets[t.name] = t
                t = Node()
                t.name = 't_x%d' % i
                root2[t.name] = t
                targets[t.name] = t
            tm.commit()         # (targets exist in their databases before they are referenced)
            obj = klass('na') if klass is vclasses.RCounterNA else klass()
            obj.n = 0
            if case.get('self_class') and variant != 'Missing':
                obj.c_factory = type(obj)
                out.label('state-shares-a-value-with-the-class-part')
            for key, ti in case['init']:
                setattr(obj, key, ref_value(key, targets[target_name(key, ti)], ti))
            root['obj'] = obj
            other = vclasses.NoResolver()
            other.n = 0
            root['other'] = other
        s2 = MappingStorage('two')
        if kind == 'demo-base':
            base = FileStorage(os.path.join(d, 'Base.fs'))
            db0 = ZODB.DB(base, database_name='one', databases=databases)
            db2 = ZODB.DB(s2, database_name='two', databases=databases)
            tm = transaction.TransactionManager()
            c = db0.open(tm)
            populate(c.root(), c.get_connection('two').root())
            tm.commit()
            c.close()
            del databases['one']
            db0.close()
            storage = DemoStorage(base=FileStorage(os.path.join(d, 'Base.fs'), read_only=True))
            db = ZODB.DB(storage, database_name='one', databases=databases)
        else:
            storage = FileStorage(os.path.join(d, 'Data.fs')) if kind == 'fs' else DemoStorage()
            db = ZODB.DB(storage, database_name='one', databases=databases)
            db2 = ZODB.DB(s2, database_name='two', databases=databases)
            tm = transaction.TransactionManager()
            c = db.open(tm)
            populate(c.root(), c.get_connection('two').root())
            tm.commit()
            c.close()
        dbs = [db, db2]
        if case.get('missing_targets'):
            out.label('classes-of-referenced-objects-not-importable')
        if variant == 'Missing' or case.get('missing_targets'):
            # "class not importable" where resolution runs (the storage), while the client can still
            # pickle its objects: the module disappears only for the duration of storage.store()
            orig_store = storage.store

            by_attr = case.get('missing_how') == 'attribute' and variant != 'Missing'

            def store(*a, **kw):
                if by_attr:
                    # the module still imports, the class of the referenced objects is gone from it
                    m_ = sys.modules.get(MISSING_MOD)
                    gone = m_.__dict__.pop('GoneNode', None) if m_ is not None else None
                    try:
                        return orig_store(*a, **kw)
                    finally:
                        if gone is not None:
                            m_.GoneNode = gone
                mod = sys.modules.pop(MISSING_MOD, None)
                try:
                    return orig_store(*a, **kw)
                finally:
                    if mod is not None:
                        sys.modules[MISSING_MOD] = mod
            storage.store = store
            if by_attr:
                out.label('class-of-referenced-objects-gone-from-importable-module')

        def model_of(conn):
            """canonical state of the contested object as seen through conn"""
            o = conn.root()['obj']
            o._p_activate()

            def nm(v):
                if isinstance(v, WeakRef):
                    return ('weak', v().name)
                if isinstance(v, persistent.Persistent):
                    return ('ref', v.name)
                return None
            return canon_state({k: v for k, v in o.__dict__.items()}, nm)

        # names by oid for decoding PersistentReference objects handed to the resolver
        tmx = transaction.TransactionManager()
        cx = db.open(tmx)
        byoid = {}
        for k2, v in cx.root().items():
            if k2 not in ('obj', 'other'):
                byoid[('one', v._p_oid)] = k2
        for k2, v in cx.get_connection('two').root().items():
            byoid[('two', v._p_oid)] = k2
        old_model = model_of(cx)
        tmx.abort()
        cx.close()

        def nm_pr(v):
            if isinstance(v, PersistentReference):
                key = (v.database_name or 'one', v.oid)
                return ('weak' if v.weak else 'ref', byoid.get(key, key))
            return None

        if case.get('poison'):
            # an unresolvable conflict on an object of ANOTHER class first (fills the module-level caches)
            tma, tmb = transaction.TransactionManager(), transaction.TransactionManager()
            ca, cb_ = db.open(tma), db.open(tmb)
            tma.begin()
            tmb.begin()
            ca.root()['other'].n = 1
            cb_.root()['other'].n = 2
            tma.commit()
            try:
                tmb.commit()
            except ConflictError:
                tmb.abort()
                out.label('other-class-conflicted-first')
            else:
                out.fail((PROPERTY, 'unresolvable', 'committed'), 'stale commit of an object without resolver succeeded')
            ca.close()
            cb_.close()
        # ---- the writers all start from the same snapshot
        ws = []
        for wspec in case['writers']:
            tmw = transaction.TransactionManager()
            cw = db.open(tmw)
            tmw.begin()
            o = cw.root()['obj']
            o._p_activate()
            ws.append((wspec, tmw, cw, o))
        for wspec, tmw, cw, o in ws:
            o.n = o.n + wspec['inc']
            if wspec.get('raise') and variant == 'RCounter' and wspec is not case['writers'][0]:
                o.x_raise = wspec['raise']      # (never committed: such a writer always conflicts)
            for key, ti in wspec['sets']:
                fmt = fmt_of(key, ti)
                pool = cw.get_connection('two').root() if fmt == 'x' else cw.root()
                setattr(o, key, ref_value(key, pool[target_name(key, ti)], ti))
            o._p_changed = True
        committed_model = dict(old_model)
        new_models = {}
        for wspec, tmw, cw, o in ws:
            if wspec.get('savepoint'):
                new_models[id(o)] = model_of(cw)
                tmw.savepoint()
                out.label('writer-took-savepoint')
        first = True
        nt = False
        states = [dict(old_model)]      # committed state after each successful commit
        tids = [None]
        def nm_obj(v):
            if isinstance(v, WeakRef):
                return ('weak', v().name)
            if isinstance(v, persistent.Persistent):
                return ('ref', v.name)
            return None

        for wspec, tmw, cw, o in ws:
            new_model = new_models.get(id(o)) or model_of(cw)
            if wspec['minimize']:
                pass
            out.evals += 1
            last = db.storage.lastTransaction()
            del vclasses.RESOLVE_LOG[:]
            del vclasses.CMP_LOG[:]
            # (looked at without loading: a ghost has been discarded; a non-ghost must already hold the merged state)
            spy = Spy(lambda o=o: 'ghost' if o._p_changed is None else canon_state(dict(o.__dict__), nm_obj))
            tmw.get().join(spy)
            try:
                tmw.commit()
                ok = True
            except ConflictError:
                ok = False
                tmw.abort()
            if first:
                if not ok:
                    out.fail((PROPERTY, 'first-writer', 'conflict'), 'the first writer cannot conflict')
                    break
                committed_model = new_model
                states.append(dict(new_model))
                tids.append(db.storage.lastTransaction())
                first = False
                if case.get('undo_first') and kind == 'fs':
                    # the first writer's transaction is undone: the committed revision the later writers are merged
                    # with is a record written by undo (a back-pointer), its state the original one
                    tmu = transaction.TransactionManager()
                    db.undo(db.undoLog(0, 1)[0]['id'], tmu.get())
                    tmu.commit()
                    committed_model = dict(old_model)
                    states.append(dict(old_model))
                    tids.append(db.storage.lastTransaction())
                    out.label('committed-revision-written-by-undo')
                continue
            failing = variant == 'RCounter' and bool(wspec.get('raise')) and wspec is not case['writers'][0]
            if failing and len(vclasses.RESOLVE_LOG) != 1 and not ok:
                out.fail((PROPERTY, 'resolution', 'resolver-call-count'),
                         'resolver called %d times for a conflict whose resolution fails' % len(vclasses.RESOLVE_LOG))
                break
            if failing:
                out.label('resolver-raised-' + wspec['raise'])
            if variant != 'RCounter' or failing:
                # no resolver / not importable / resolver fails: conflict, nothing stored
                if ok:
                    out.fail((PROPERTY, 'unresolvable', 'committed'),
                             'variant %s: a stale commit succeeded' % variant)
                    break
                if db.storage.lastTransaction() != last:
                    out.fail((PROPERTY, 'unresolvable', 'stored'), 'variant %s: the refused commit stored a transaction' % variant)
                    break
                if variant in ('NoResolver', 'Missing') and vclasses.RESOLVE_LOG:
                    out.fail((PROPERTY, 'unresolvable', 'resolver-ran'), 'variant %s: a resolver was called: %r' % (variant, vclasses.RESOLVE_LOG))
                    break
                out.label('unresolvable-' + variant)
                tmw.begin()
                got = model_of(cw)
                if got != committed_model:
                    out.fail((PROPERTY, 'unresolvable', 'writer-reads-wrong-state'),
                             'after the conflict the writer reads %r ; committed is %r' % (got, committed_model))
                    break
                continue
            # ---- resolvable
            if not ok:
                out.fail((PROPERTY, 'resolution', 'conflict-raised'), 'a resolvable stale commit raised ConflictError')
                break
            if len(vclasses.RESOLVE_LOG) != 1:
                out.fail((PROPERTY, 'resolution', 'resolver-call-count'), 'resolver called %d times' % len(vclasses.RESOLVE_LOG))
                break
            # comparisons between the references handed to the resolver: equal (and ordered as equal) if both are ordinary
            # references to the same object of the same database, otherwise ValueError - never a guess
            for k2, opname, r_, same_obj, fa, fb in vclasses.CMP_LOG:
                same = same_obj or (fa[0] == fb[0] and fa[1] == fb[1] and not fa[2] and not fb[2])
                want = {'eq': True, 'ne': False, 'le': True, 'gt': False}[opname] if same else 'ValueError'
                if r_ != want or type(r_) is not type(want):
                    out.fail((PROPERTY, 'resolution', 'reference-comparison', opname),
                             'inside the resolver, %s of the references under %r (%r and %r) gave %r ; documented: %r' % (
                                 opname, k2, fa, fb, r_, want))
                    break
            if out.failures:
                break
            if vclasses.CMP_LOG:
                out.label('references-compared-inside-resolver')
            a_old, a_com, a_new = [canon_state(s_, nm_pr) for s_ in vclasses.RESOLVE_LOG[0]]
            for label, got, exp in (('old', a_old, old_model), ('committed', a_com, committed_model), ('new', a_new, new_model)):
                if got != exp:
                    out.fail((PROPERTY, 'resolution', 'wrong-argument', label),
                             'the resolver got as %s state %r ; the model says %r' % (label, got, exp))
                    break
            if out.failures:
                break
            merged = dict(new_model)
            merged['n'] = committed_model['n'] + new_model['n'] - old_model['n']
            for k2, v in committed_model.items():
                if k2.startswith('c_'):
                    merged[k2] = v
            tmf = transaction.TransactionManager()
            cf = db.open(tmf)
            got = model_of(cf)
            tmf.abort()
            cf.close()
            if got != merged:
                out.fail((PROPERTY, 'resolution', 'stored-state-differs'),
                         'a fresh connection loads %r ; the resolver returned %r' % (got, merged))
                break
            if spy.seen != 'ghost' and spy.seen != merged:
                out.fail((PROPERTY, 'resolution', 'writer-keeps-own-copy', 'when-its-commit-finishes'),
                         'when the resolved commit finishes the writer\'s connection still holds its own copy %r ; merged state '
                         'is %r (only a later invalidation message would correct it)' % (spy.seen, merged))
                break
            got = model_of(cw)      # the writer's own copy was discarded: it reads the merged state
            if got != merged:
                out.fail((PROPERTY, 'resolution', 'writer-keeps-own-copy'),
                         'after the resolved commit the writer reads %r ; merged state is %r' % (got, merged))
                break
            out.label('resolved')
            if any(isinstance(v, tuple) for v in merged.values()) and old_model != committed_model != new_model:
                nt = True
            committed_model = merged
            states.append(dict(merged))
            tids.append(db.storage.lastTransaction())
        for wspec, tmw, cw, o in ws:
            tmw.abort()
            cw.close()
        # ---- the undo path: undoing a transaction that is not the object's latest change resolves with
        # (state the undone transaction wrote, state now committed, state before the undone transaction)
        if (variant == 'RCounter' and kind == 'fs' and not out.failures and len(states) >= 3 and case.get('undo')
                and case.get('undo2')):
            # two changes undone in one transaction: the second merge starts from the first one's result
            import base64
            from ZODB.POSException import UndoError
            k_last = len(states) - 1
            j1 = 1 + (case['undo'] - 1) % k_last
            j2 = k_last if case['undo2'].endswith('-last') else 1 + (j1 % k_last)
            js = sorted({j1, j2})
            skip = True
            if len(js) == 2 and tids[js[0]] != tids[js[1]]:
                skip = False
                if case['undo2'].startswith('new-first'):
                    js.reverse()
                current = states[-1]
                for n_, j in enumerate(js):
                    undone, pre = states[j], states[j - 1]
                    if j == k_last and n_ == 0:
                        current = pre       # (the newest record itself: nothing to merge, the previous state comes back)
                        continue
                    if undone == current:
                        skip = True     # (copy or merge: both allowed, see the single undo below)
                        break
                    merged = dict(pre)
                    merged['n'] = current['n'] + pre['n'] - undone['n']
                    for k2, v in current.items():
                        if k2.startswith('c_'):
                            merged[k2] = v
                    current = merged
            if True:
                if not skip:
                    tmu = transaction.TransactionManager()
                    out.evals += 1
                    try:
                        db.undoMultiple([base64.encodebytes(tids[j]).rstrip() for j in js], tmu.get())
                        tmu.commit()
                    except UndoError as e:
                        tmu.abort()
                        out.fail((PROPERTY, 'undo-resolution', 'refused'),
                                 'undo of two resolvable intermediate changes in one transaction was refused: %s' % e)
                    else:
                        tmf = transaction.TransactionManager()
                        cf = db.open(tmf)
                        got = model_of(cf)
                        tmf.abort()
                        cf.close()
                        if got != current:
                            out.fail((PROPERTY, 'undo-resolution', 'stored-state-differs', 'two-undos-in-one-transaction'),
                                     'after undoing writers %r in one transaction a fresh connection loads %r ; the resolver\'s '
                                     'merges give %r' % (js, got, current))
                        else:
                            out.label('undo-path-resolved-twice-in-one-transaction')
        elif variant == 'RCounter' and kind == 'fs' and not out.failures and len(states) >= 3 and case.get('undo'):
            import base64
            j = 1 + (case['undo'] - 1) % (len(states) - 2)        # states[0] = initial; undo writer j (not the last)
            tid_j = tids[j]
            undone, pre, current = states[j], states[j - 1], states[-1]
            del vclasses.RESOLVE_LOG[:]
            tmu = transaction.TransactionManager()
            out.evals += 1
            from ZODB.POSException import UndoError
            try:
                db.undo(base64.encodebytes(tid_j).rstrip(), tmu.get())
                tmu.commit()
                okay = True
            except UndoError:
                tmu.abort()
                okay = False
            if undone == current:
                # nothing changed since: the undo copies the previous state, no merge is needed
                # (value-equal states may still differ in bytes, then the resolver runs: either is fine)
                out.label('undo-of-unchanged-state')
                okay = None
            if okay is None:
                pass
            elif not okay:
                out.fail((PROPERTY, 'undo-resolution', 'refused'), 'undo of a resolvable intermediate change was refused')
            elif len(vclasses.RESOLVE_LOG) != 1:
                out.fail((PROPERTY, 'undo-resolution', 'resolver-call-count'), 'resolver called %d times during undo' % len(vclasses.RESOLVE_LOG))
            else:
                a_old, a_com, a_new = [canon_state(s_, nm_pr) for s_ in vclasses.RESOLVE_LOG[0]]
                for label, got, exp in (('old', a_old, undone), ('committed', a_com, current), ('new', a_new, pre)):
                    if got != exp:
                        out.fail((PROPERTY, 'undo-resolution', 'wrong-argument', label),
                                 'undo: the resolver got as %s state %r ; the model says %r' % (label, got, exp))
                        break
                if not out.failures:
                    merged = dict(pre)
                    merged['n'] = current['n'] + pre['n'] - undone['n']
                    for k2, v in current.items():
                        if k2.startswith('c_'):
                            merged[k2] = v
                    tmf = transaction.TransactionManager()
                    cf = db.open(tmf)
                    got = model_of(cf)
                    tmf.abort()
                    cf.close()
                    if got != merged:
                        out.fail((PROPERTY, 'undo-resolution', 'stored-state-differs'),
                                 'after the undo a fresh connection loads %r ; the resolver returned %r' % (got, merged))
                    else:
                        out.label('undo-path-resolved')
        out.nontrivial = nt
        out.label(kind, variant)
    finally:
        sys.modules.pop(MISSING_MOD, None)
        for x in dbs:
            try:
                x.close()
            except Exception:
                pass
    return out


LEVEL_TEXT = ('Chains of stale writers are committed one after another; for each resolution the three states handed to the recording '
              'resolver, the stored result as loaded by a fresh connection, and what the writer reads afterwards are compared with '
              'the model, with references in all four formats; unresolvable class variants must conflict without storing.')
LEVEL_NOTE = 'Trusted: recording resolver in vlib/vclasses.RCounter; canonicalisation of PersistentReference by (database, oid, weak).'
