"""C15 — historical connections read exactly the chosen past state and cannot write."""
import datetime
import os

from hypothesis import strategies as st

from vlib import clock, locks
from vlib.driver import Outcome, newdir
from vlib.model import p64, u64

PROPERTY = 'C15'
LEVEL = 'exploration'
TECH = ('model-based PBT: generated histories (file, mapping, blob storages; continued in a DemoStorage; multi-database) x every historical '
        'bound (at/before, raw tid, naive and aware datetimes) with live commits and packs while open')
RULE = ('cases = generated histories through DB/Connection (changes, creations, removals from the root, un-creations by '
        'undo) on FileStorage and MappingStorage, optionally continued in the changes of a DemoStorage wrapped around them, '
        'optionally with an object in a second database of a multi-database, with the harness clock; for EVERY transaction id t: at=t, at=t+1, before=t, '
        'before=t+1, and naive and timezone-aware datetime bounds between transactions; the historical connection is read, then live connections '
        'commit generated changes (and a pack to an earlier time runs), it is read again (also after cache minimize and '
        'after close + reopen from the historical pool); writes through it must fail and store nothing; bounds beyond the '
        'newest transaction must raise ValueError; evaluations = bounds checked; non-trivial = a bound strictly inside the '
        'history at which >= 1 object differs from its current state, re-read after a later commit; distinct by (case hash, bound); later additions: blob kinds, packs inside the history, a change taken back before the commit of the historical connection (nothing may be stored)')
ASSUMPTIONS = ['datetime bounds are chosen >= 100 ms away from any transaction time',
               'after the pack, historical points older than the pack time are closed without being judged again']
BUDGET = {'quick': {'examples': 3500, 'workers': 8},
          'thorough': {'examples': 20000, 'workers': 16}}

NAMES = ['a', 'b', 'c', 'd']
ABSENT = None


def strategy(tier):
    n = 8 if tier == 'quick' else 14
    name = st.sampled_from(NAMES)
    op = st.one_of(
        st.tuples(st.just('set'), st.lists(st.tuples(name, st.integers(1, 9)), min_size=1, max_size=2)),
        st.tuples(st.just('set'), st.lists(st.tuples(name, st.integers(1, 9)), min_size=1, max_size=2)),
        st.tuples(st.just('create'), name),
        st.tuples(st.just('remove'), name),
        st.tuples(st.just('undo'), st.integers(0, 3)),
        st.tuples(st.just('setx'), st.integers(1, 9)),
        st.tuples(st.just('setblob'), st.integers(1, 9)),
    ).map(list)
    return st.fixed_dictionaries({
        # fsb: FileStorage with a blob directory, bfs: the blob wrapper around a FileStorage - both with a blob object
        'kind': st.sampled_from(['fs', 'fs', 'mapping', 'fsb', 'bfs', 'bmap']),
        'history': st.lists(op, min_size=2, max_size=n),
        'later': st.lists(op, min_size=1, max_size=3),
        'pack_at': st.integers(0, 3),
        'do_pack': st.booleans(),
        # the object 'x' lives in a second database of a multi-database and is referenced from the root
        'multi': st.sampled_from([None, None, 'mapping', 'fs']),
        # UTC offset (minutes) of the timezone-aware datetime bounds
        # does a transaction writing both databases precede the bounds (both have the same newest tid)?
        'sync': st.booleans(),
        # after this many operations the storage becomes the base of a DemoStorage and the history goes on
        # in its changes (historical points then lie in the base's history, in the changes' or between)
        'demo_at': st.sampled_from([None, None, None, 1, 2, 4]),
        'tz': st.sampled_from([-720, -300, -1, 0, 1, 60, 330, 840]),
    })


class Hist:
    def __init__(self, kind, d, multi=None):
        import transaction
        import ZODB
        from ZODB.FileStorage import FileStorage
        from ZODB.MappingStorage import MappingStorage
        self.kind = kind
        self.multi = multi
        kw = {}
        if multi:
            self.databases = {}
            kw = {'databases': self.databases, 'database_name': 'main'}
        if kind == 'fsb':
            storage = FileStorage(os.path.join(d, 'Data.fs'), blob_dir=os.path.join(d, 'blobs'))
        elif kind == 'bfs':
            from ZODB.blob import BlobStorage
            storage = BlobStorage(os.path.join(d, 'blobs'), FileStorage(os.path.join(d, 'Data.fs')))
        elif kind == 'bmap':
            from ZODB.blob import BlobStorage
            storage = BlobStorage(os.path.join(d, 'blobs'), MappingStorage())
        else:
            storage = FileStorage(os.path.join(d, 'Data.fs')) if kind == 'fs' else MappingStorage()
        self.db = ZODB.DB(storage, historical_pool_size=2, **kw)
        self.db2 = None
        self.tm = transaction.TransactionManager()
        self.conn = self.db.open(self.tm)
        self.txns = []      # (tid, {name: state|ABSENT}) ; state = {'v':..}; key 'root' = tuple of names
        self.oids = {}
        self.txns.append((self.db.storage.lastTransaction(), {'root': ()}))
        clock.CLOCK.advance(1.0)
        if kind in ('fsb', 'bfs', 'bmap'):
            from ZODB.blob import Blob
            self.conn.root()['B'] = Blob(b'blob-0')
            self.tm.commit()
            self.record({'B': {'blob': b'blob-0'}, 'root': ('B',)})
        if multi:
            from vlib.vclasses import Node
            self.db2 = ZODB.DB(FileStorage(os.path.join(d, 'Other.fs')) if multi == 'fs' else MappingStorage(),
                               historical_pool_size=2, databases=self.databases, database_name='other')
            clock.CLOCK.advance(1.0)
            self.conn2 = self.conn.get_connection('other')
            x = Node()
            x.v = 1
            self.conn2.root()['x'] = x
            self.tm.commit()
            self.record({'x': {'v': 1}})
            self.conn.root()['x'] = x          # cross-database reference
            self.tm.commit()
            self.record({'root': tuple(sorted(set(self.state()['root']) | {'x'}))})

    def wrap_in_demo(self):
        import ZODB
        from ZODB.DemoStorage import DemoStorage
        self.tm.abort()
        self.conn.close()
        self.base_db = self.db          # (left open: closing it would close the base storage)
        self.db = ZODB.DB(DemoStorage(base=self.db.storage), historical_pool_size=2)
        self.conn = self.db.open(self.tm)
        self.kind = 'demo-over-' + self.kind
        clock.CLOCK.advance(1.0)

    def last_tid(self):
        t = self.db.storage.lastTransaction()
        if self.db2 is not None:
            t = max(t, self.db2.storage.lastTransaction())
        return t

    def sync(self):
        """one transaction that writes both databases: both have the same newest transaction"""
        if not self.multi:
            return
        n = len(self.txns)
        self.conn.root()['_sync'] = n
        self.conn2.root()['x'].v = 5000 + n
        self.tm.commit()
        self.record({'x': {'v': 5000 + n}})

    def state(self, before=None):
        s = {}
        for tid, w in self.txns:
            if before is not None and tid >= before:
                break
            s.update(w)
        return s

    def record(self, writes):
        assert self.last_tid() > self.txns[-1][0]
        self.txns.append((self.last_tid(), writes))
        clock.CLOCK.advance(1.0)

    def apply(self, op):
        """returns True if a transaction was committed"""
        from vlib.vclasses import Node
        cur = self.state()
        root = self.conn.root()
        k = op[0]
        if k == 'set':
            w = {}
            for name, v in op[1]:
                if name in cur['root']:
                    root[name].v = v * 1000 + len(self.txns)
                    w[name] = {'v': v * 1000 + len(self.txns)}
            if not w:
                return False
            self.tm.commit()
            self.record(w)
            return True
        if k == 'setblob':
            if self.kind not in ('fsb', 'bfs', 'bmap') or 'B' not in cur['root'] or cur.get('B') is ABSENT:
                return False
            data = b'blob-%d-%d' % (op[1], len(self.txns))
            with root['B'].open('w') as f:
                f.write(data)
            self.tm.commit()
            self.record({'B': {'blob': data}})
            return True
        if k == 'setx':
            if not self.multi:
                return False
            v = op[1] * 1000 + len(self.txns)
            self.conn2.root()['x'].v = v
            self.tm.commit()
            self.record({'x': {'v': v}})
            return True
        if k == 'create':
            name = op[1]
            if name in cur['root']:
                return False
            o = Node()
            o.v = len(self.txns)
            root[name] = o
            self.tm.commit()
            self.oids[name] = o._p_oid
            self.record({name: {'v': o.v}, 'root': tuple(sorted(set(cur['root']) | {name}))})
            return True
        if k == 'remove':
            name = op[1]
            if name not in cur['root']:
                return False
            del root[name]
            self.tm.commit()
            # the object itself is not written: it stays in the storage, unreachable
            self.record({'root': tuple(sorted(set(cur['root']) - {name}))})
            return True
        if k == 'undo' and self.kind in ('fs', 'fsb', 'bfs') and not self.multi:      # (not after wrap_in_demo: kind changes)
            from ZODB.POSException import UndoError
            import base64
            log = self.db.undoLog(0, 10)
            if not log:
                return False
            e = log[op[1] % len(log)]
            tid = base64.decodebytes(e['id'] + b'\n')
            idx = [i for i, t in enumerate(self.txns) if t[0] == tid]
            if not idx or idx[0] == 0 or (self.kind in ('fsb', 'bfs') and idx[0] <= 1):
                return False
            try:
                self.db.undo(e['id'], self.tm.get())
                self.tm.commit()
            except UndoError:
                self.tm.abort()
                return False
            # value model of the applied undo: every key written by the target goes back to what it
            # was before the target (the storage accepted, so later changes were equal or absent)
            before = self.state(tid)
            w = {}
            for key in self.txns[idx[0]][1]:
                w[key] = before.get(key, ABSENT)
            self.record(w)
            return True
        return False


def view(state):
    """what is reachable from the root: {name: state}"""
    if 'root' not in state:
        return 'no-root'
    return {n: state[n] for n in state.get('root', ()) if state.get(n) is not ABSENT}


def read_hist(conn):
    try:
        root = conn.root()
    except KeyError:
        return 'no-root'        # a bound before the database was created
    out = {}
    for n in sorted(root.keys()):
        if n.startswith('_'):
            continue
        o = root[n]
        if n == 'B':
            with o.open('r') as f:
                out[n] = {'blob': f.read()}
            continue
        o._p_activate()
        out[n] = {'v': o.v}
    return out


def execute(case):
    import transaction
    from persistent.TimeStamp import TimeStamp
    from ZODB.POSException import ReadOnlyError, ReadOnlyHistoryError
    out = Outcome()
    out.evals = 0
    clock.install()
    locks.install()
    clock.reset()
    d = newdir()
    h = Hist(case['kind'], d, case.get('multi'))
    nt = []
    tz = datetime.timezone(datetime.timedelta(minutes=case.get('tz', 0)))
    try:
        for i, op in enumerate([['create', 'a'], ['create', 'b']] + list(case['history'])):
            if case.get('demo_at') is not None and not h.multi and i == 2 + case['demo_at']:
                h.wrap_in_demo()
                out.label('demo-over-base-with-history')
            try:
                h.apply(op)
            except (KeyError, AttributeError) as e:
                # the live connection itself does not show what the history model holds
                out.fail((PROPERTY, 'live-connection', 'differs-from-model'),
                         'applying %r on the live connection raised %r (model root: %r)' % (op, e, h.state().get('root')))
                return done(out, nt)
        if case.get('sync'):
            h.sync()
        tids = [t[0] for t in h.txns]
        # ---- bounds
        bounds = []
        for t in tids:
            bounds.append(('at', t, p64(u64(t) + 1)))
            bounds.append(('before', t, t))
            bounds.append(('before', p64(u64(t) + 1), p64(u64(t) + 1)))
            if t != tids[-1]:
                bounds.append(('at', p64(u64(t) + 1), p64(u64(t) + 2)))
            # a time between this transaction and the next, as datetime
            tt = TimeStamp(t).timeTime() + 0.5
            dt = datetime.datetime.fromtimestamp(tt, datetime.timezone.utc).replace(tzinfo=None)
            eff = h.db.__class__ and None
            bounds.append(('at-datetime', dt, None))
            bounds.append(('before-datetime', dt, None))
            # the same instant as a timezone-aware datetime
            aware = datetime.datetime.fromtimestamp(tt, tz)
            bounds.append(('at-datetime', aware, None) if u64(t) % 2 else ('before-datetime', aware, None))
        opened = []
        for kind, arg, before in bounds:
            tm_h = transaction.TransactionManager()
            try:
                if kind.startswith('at'):
                    hc = h.db.open(tm_h, at=arg)
                else:
                    hc = h.db.open(tm_h, before=arg)
            except ValueError as e:
                # only bounds beyond the newest transaction may be refused
                if kind in ('at-datetime', 'before-datetime') and TimeStamp(tids[-1]).timeTime() < epoch_secs(arg):
                    out.label('future-datetime-refused')
                    continue
                if before is not None and before > p64(u64(tids[-1]) + 1):
                    continue
                out.fail((PROPERTY, 'open', 'refused-valid-bound'), 'open(%s=%r) raised %r' % (kind, arg, e))
                return done(out, nt)
            if before is None:
                # datetime: the state as of the transactions committed up to that time
                secs = epoch_secs(arg)
                if arg.tzinfo is not None:
                    out.label('aware-datetime-bound' if arg.utcoffset() else 'aware-utc-datetime-bound')
                before = p64(u64(max(t for t in tids if TimeStamp(t).timeTime() <= secs)) + 1)
            exp = view(h.state(before))
            out.evals += 1
            got = read_hist(hc)
            if got != exp:
                out.fail((PROPERTY, 'historical-read', 'mismatch'),
                         'open(%s=%r) reads %r ; the model state before %r is %r' % (kind, arg, got, before, exp))
                return done(out, nt)
            opened.append((kind, arg, before, hc, tm_h, exp))
        # a point later than the newest transaction is refused
        for kind, arg in (('before', p64(u64(tids[-1]) + 2)), ('at', p64(u64(tids[-1]) + 1)),
                          ('at', datetime.datetime(2100, 1, 1))):
            try:
                c = h.db.open(transaction.TransactionManager(), **{kind: arg})
            except ValueError:
                out.label('future-refused')
            else:
                out.fail((PROPERTY, 'open', 'future-accepted'), 'open(%s=%r) later than the newest transaction was accepted' % (kind, arg))
                c.close()
                return done(out, nt)
        # ---- the world moves on while the historical connections are open
        cur_before = view(h.state())
        committed_later = False
        for op in list(case['later']) + ([['setx', 3]] if h.multi else []):
            try:
                committed_later = h.apply(op) or committed_later
            except (KeyError, AttributeError) as e:
                out.fail((PROPERTY, 'live-connection', 'differs-from-model'),
                         'applying %r on the live connection raised %r (model root: %r)' % (op, e, h.state().get('root')))
                return done(out, nt)
        packed_upto = None
        if case['do_pack'] and len(tids) > 1:
            # pack (with the storage's garbage collection) to right after a generated transaction of the history:
            # historical points older than that are outside the statement from now on, all others must be unaffected
            pk = tids[case['pack_at'] % len(tids)]
            try:
                h.db.pack(TimeStamp(pk).timeTime() + 0.001)
                out.label('pack-while-open')
                packed_upto = pk
                if pk != tids[0]:
                    out.label('pack-inside-the-history')
            except Exception as e:
                # (DemoStorage.pack over changes wrapped for blobs re-raises a TypeError: nothing is packed - obs. 6)
                if type(e).__name__ not in ('FileStorageError',) and not (isinstance(e, TypeError) and 'gc' in str(e)):
                    raise
        if packed_upto is not None:
            still = []
            for item in opened:
                if item[2] <= packed_upto:
                    item[3].close()         # (snapshot older than the pack time: not judged any more)
                else:
                    still.append(item)
            opened = still
        for kind, arg, before, hc, tm_h, exp in opened:
            out.evals += 1
            got = read_hist(hc)
            if got != exp:
                out.fail((PROPERTY, 'historical-read', 'changed-by-later-commit'),
                         'open(%s=%r) first read %r, after later commits it reads %r' % (kind, arg, exp, got))
                return done(out, nt)
            hc.cacheMinimize()
            got = read_hist(hc)
            if got != exp:
                out.fail((PROPERTY, 'historical-read', 'changed-after-minimize'),
                         'open(%s=%r) after cacheMinimize reads %r ; expected %r' % (kind, arg, got, exp))
                return done(out, nt)
            if committed_later and exp != view(h.state()) and before <= tids[-1]:
                nt.append((repr(sorted(case.items())), kind, repr(arg)))
            # writes are refused and store nothing
            if exp and exp != 'no-root':
                last = h.db.storage.lastTransaction()
                name = sorted(exp)[0]
                hc.root()[name].v = -5
                try:
                    tm_h.commit()
                except (ReadOnlyHistoryError, ReadOnlyError):
                    tm_h.abort()
                    out.label('write-refused')
                else:
                    out.fail((PROPERTY, 'historical-write', 'accepted'), 'commit through open(%s=%r) succeeded' % (kind, arg))
                    return done(out, nt)
                if h.db.storage.lastTransaction() != last:
                    out.fail((PROPERTY, 'historical-write', 'stored'), 'a refused historical commit stored a transaction')
                    return done(out, nt)
                # a change that is taken back before the commit (the connection has joined the transaction, nothing is
                # left to write): refused or not, nothing reaches the storage
                o_ = hc.root()[name]
                o_.v = -7
                if case.get('junk', len(name)) % 2:
                    o_._p_changed = False
                else:
                    o_._p_invalidate()
                try:
                    tm_h.commit()
                except (ReadOnlyHistoryError, ReadOnlyError):
                    tm_h.abort()
                out.label('historical-change-taken-back')
                if h.db.storage.lastTransaction() != last:
                    out.fail((PROPERTY, 'historical-write', 'stored', 'empty-transaction'),
                             'a commit through open(%s=%r) after its only change had been taken back stored a transaction' % (kind, arg))
                    return done(out, nt)
                hc.cacheMinimize()
                if h.multi and 'x' in exp:
                    # a write to the object of the other database reached through the historical connection
                    last = h.last_tid()
                    hc.root()['x'].v = -6
                    try:
                        tm_h.commit()
                    except (ReadOnlyHistoryError, ReadOnlyError):
                        tm_h.abort()
                        out.label('cross-db-write-refused')
                    else:
                        out.fail((PROPERTY, 'historical-write', 'cross-database-accepted'),
                                 'commit of a change to an object of the second database through open(%s=%r) succeeded' % (kind, arg))
                        return done(out, nt)
                    if h.last_tid() != last:
                        out.fail((PROPERTY, 'historical-write', 'stored'), 'a refused historical commit stored a transaction')
                        return done(out, nt)
                got = read_hist(hc)
                if got != exp:
                    out.fail((PROPERTY, 'historical-read', 'changed-after-refused-write'),
                             'after the refused write open(%s=%r) reads %r ; expected %r' % (kind, arg, got, exp))
                    return done(out, nt)
            # pooled historical connections are reused for the same bound
            hc.close()
            tm2 = transaction.TransactionManager()
            hc2 = h.db.open(tm2, **({'at': arg} if kind.startswith('at') else {'before': arg}))
            got = read_hist(hc2)
            hc2.close()
            if got != exp:
                out.fail((PROPERTY, 'historical-read', 'pooled-connection-differs'),
                         'reopened open(%s=%r) reads %r ; expected %r' % (kind, arg, got, exp))
                return done(out, nt)
            # with connections of this bound idle in the pool, a bound never used before must still
            # get a connection of its own
            j = len(opened) and (u64(before) % len(tids))
            t3 = TimeStamp(tids[j]).timeTime() + 0.25
            if t3 < TimeStamp(tids[-1]).timeTime() and (packed_upto is None or tids[j] >= packed_upto):
                dt3 = datetime.datetime.fromtimestamp(t3, datetime.timezone.utc).replace(tzinfo=None)
                hc3 = h.db.open(transaction.TransactionManager(), at=dt3)
                got = read_hist(hc3)
                hc3.close()
                exp3 = view(h.state(p64(u64(tids[j]) + 1)))
                out.evals += 1
                if got != exp3:
                    out.fail((PROPERTY, 'historical-read', 'fresh-bound-with-idle-pool'),
                             'open(at=%r) reads %r ; expected %r' % (dt3, got, exp3))
                    return done(out, nt)
    finally:
        try:
            h.tm.abort()
            h.db.close()
            if h.db2 is not None:
                h.db2.close()
            if getattr(h, 'base_db', None) is not None:
                h.base_db.close()
        except Exception:
            pass
    out.label(case['kind'], *(['multi-database', 'other-' + case['multi']] if case.get('multi') else []))
    return done(out, nt)


def epoch_secs(dt):
    if dt.tzinfo is None:
        return (dt - datetime.datetime(1970, 1, 1)).total_seconds()
    return (dt - datetime.datetime(1970, 1, 1, tzinfo=datetime.timezone.utc)).total_seconds()


def done(out, nt):
    out.nt_keys = nt
    return out


LEVEL_TEXT = ('For every generated history all transaction-id and in-between datetime bounds are opened as historical connections, '
              'read, re-read after later commits / pack / cache minimize / pool reuse, and written to; answers are compared with '
              'the model state at the bound. Exhaustive over bounds per history.')
LEVEL_NOTE = 'Trusted: value-level history model (incl. applied undos), harness clock for transaction times.'
