"""C11 — in-memory objects follow the outcome of their transaction."""
import os

from hypothesis import strategies as st

from vlib import clock, locks, objprog
from vlib.driver import Outcome, newdir

PROPERTY = 'C11'
LEVEL = 'exploration'
TECH = 'model-based stateful PBT: generated connection programs vs an object-level model (state, ownership, stored record sets)'
RULE = ('cases = generated programs over Node / PersistentMapping / PersistentList objects and the root: modifications, '
        'new objects linked directly or inside plain lists/dicts, explicit add, unlink, commit, abort, commits failed by a '
        'second resource manager in tpc_begin/commit/tpc_vote sorted before/after the connection, storage conflicts, '
        'close/reopen, cacheMinimize, on file/mapping/demo storages; oracle after every boundary: exact record set and single '
        'tid of the commit (storage iterator), objects clean with that serial; after abort/failed commit modified objects '
        'read their committed state, new objects have no jar/oid, KEEP their state and are later re-added and committed by '
        'the program (fresh connection must then read that state); close inside a transaction raises; evaluations = steps; '
        'non-trivial = program with a failed/aborted transaction that had both a modified and a new object, followed by a '
        'successful commit; distinct by program hash')
ASSUMPTIONS = ['the second resource manager is a plain object implementing the data-manager protocol; failures in tpc_finish '
               'are not generated (then the data is committed)']
BUDGET = {'quick': {'examples': 20000, 'workers': 8},
          'thorough': {'examples': 150000, 'workers': 16}}


def strategy(tier):
    n = 18 if tier == 'quick' else 35
    plain = st.fixed_dictionaries({'kind': st.sampled_from(['fs', 'fs', 'mapping', 'demo']),
                                   # explicit transaction mode (transaction.TransactionManager(explicit=True))
                                   'explicit': st.sampled_from([False, False, True]),
                                   'ops': st.lists(objprog.op_strategy({'fail'}), min_size=3, max_size=n)})
    # the same outcomes for transactions that took savepoints (objects written before a savepoint and not
    # touched again are stored - and reverted - through another path); new objects already saved by a
    # savepoint are not used again after a failure (DESIGN 10.2 obs. 7)
    from checks import c05_unfinished
    saved = c05_unfinished.conn_strategy(tier).map(lambda c: {'kind': c['kind'], 'explicit': c['explicit'], 'ops': c['ops'],
                                                             'savepoints': True})
    # a connection of a multi-database: its secondary connections share its fate (close, reuse from the pool)
    mop = st.one_of(st.tuples(st.just('set'), st.sampled_from(['main', 'other']), st.integers(1, 9)),
                    st.tuples(st.just('set'), st.just('other'), st.integers(1, 9)),
                    st.tuples(st.just('close')), st.tuples(st.just('close')),
                    st.tuples(st.just('commit')), st.tuples(st.just('abort')), st.tuples(st.just('read'))).map(list)
    multi = st.fixed_dictionaries({'mode': st.just('multidb'), 'kind': st.sampled_from(['fs', 'mapping']),
                                   'ops': st.lists(mop, min_size=3, max_size=12)})
    return st.integers(0, 99).flatmap(lambda r: saved if r < 25 else multi if r < 35 else plain)


def execute_multidb(case):
    """work through the primary and/or a secondary connection of a multi-database; close() is refused while either
    has uncommitted changes; connections reused from the pool show committed state only"""
    import transaction
    import ZODB
    from ZODB.POSException import ConnectionStateError
    from vlib.vclasses import Node
    out = Outcome()
    out.evals = 0
    clock.install()
    locks.install()
    clock.reset()
    d = newdir()
    dbs = {}
    os.mkdir(os.path.join(d, 'm'))
    os.mkdir(os.path.join(d, 'o'))
    db = ZODB.DB(storage_factory(case['kind'], os.path.join(d, 'm'))(), databases=dbs, database_name='main')
    db2 = ZODB.DB(storage_factory(case['kind'], os.path.join(d, 'o'))(), databases=dbs, database_name='other')
    tm = transaction.TransactionManager()
    conn = db.open(tm)
    try:
        for name in ('main', 'other'):
            c = conn if name == 'main' else conn.get_connection('other')
            c.root()['o'] = Node()
            c.root()['o'].v = 0
        tm.commit()
        committed = {'main': 0, 'other': 0}
        work = {}
        for op in case['ops']:
            k = op[0]
            out.evals += 1
            clock.CLOCK.advance(0.25)
            if k == 'set':
                c = conn if op[1] == 'main' else conn.get_connection('other')
                c.root()['o'].v = op[2] * 10 + out.evals
                work[op[1]] = op[2] * 10 + out.evals
                if op[1] == 'other' and 'main' not in work:
                    out.label('work-through-secondary-only')
            elif k == 'commit':
                tm.commit()
                committed.update(work)
                work = {}
            elif k == 'abort':
                tm.abort()
                work = {}
            elif k == 'read':
                pass
            elif k == 'close':
                try:
                    conn.close()
                except ConnectionStateError:
                    if not work:
                        out.fail((PROPERTY, 'multidb-close', 'refused-outside-transaction'),
                                 'close() raised ConnectionStateError although nothing is uncommitted')
                        break
                    out.label('close-refused')
                else:
                    if work:
                        out.fail((PROPERTY, 'multidb-close', 'allowed-inside-transaction'),
                                 'close() of the primary connection succeeded while %r has uncommitted changes' % sorted(work))
                        break
                    # reuse from the pool, under another transaction manager
                    tm = transaction.TransactionManager()
                    conn = db.open(tm)
                    out.label('reopen')
            got = {'main': conn.root()['o'].v, 'other': conn.get_connection('other').root()['o'].v}
            exp = dict(committed, **work)
            if got != exp:
                out.fail((PROPERTY, 'multidb-state', 'mismatch'), 'after %r the connections read %r ; expected %r' % (op, got, exp))
                break
    finally:
        try:
            tm.abort()
            db.close()
            db2.close()
        except Exception:           # noqa: B902
            pass
    out.label('multi-database', 'multi-' + case['kind'])
    out.nontrivial = False
    return out


def storage_factory(kind, d):
    def f():
        from ZODB.DemoStorage import DemoStorage
        from ZODB.FileStorage import FileStorage
        from ZODB.MappingStorage import MappingStorage
        if kind == 'fs':
            return FileStorage(os.path.join(d, 'Data.fs'))
        if kind == 'mapping':
            return MappingStorage()
        return DemoStorage()
    return f


def execute(case):
    if case.get('mode') == 'multidb':
        return execute_multidb(case)
    out = Outcome()
    out.evals = 0
    clock.install()
    locks.install()
    clock.reset()
    d = newdir()
    w = objprog.World(storage_factory(case['kind'], d), out, PROPERTY, lenient_disowned=bool(case.get('savepoints')),
                      explicit=case.get('explicit', False))
    seen_abort = False
    nt = False
    try:
        # a small committed population to work on
        for op in (['new', 'N', 0, 's0', 'r'], ['new', 'M', 0, 's0', 'r'], ['new', 'L', 1, 's1', 'rl'], ['commit']):
            w.step(op)
        for op in case['ops']:
            w.step(op)
            clock.CLOCK.advance(0.25)
            out.evals += 1
            if out.failures:
                break
            if 'aborted-with-modified-and-new' in w.labels:
                seen_abort = True
            if seen_abort and op[0] == 'commit' and ('commit' in w.labels or 'commit-with-new' in w.labels):
                nt = True
    finally:
        w.close()
    out.label(case['kind'], *w.labels, *(['explicit-mode'] if case.get('explicit') else []),
              *(['with-savepoints'] if case.get('savepoints') else []))
    out.nontrivial = nt
    return out


LEVEL_TEXT = ('Generated connection programs are mirrored on an object-level model that predicts, for every step, the state '
              'each object shows, which objects have an oid, and exactly which records a commit stores; failed commits are '
              'provoked at every participant phase and by storage conflicts. Exploration of programs up to 18/35 steps.')
LEVEL_NOTE = ('Trusted: vlib/objprog.OModel; the storage iterator as the listing of stored records. A quarter of the programs take savepoints (new objects saved by a savepoint are not used again after a failure, DESIGN 10.2 obs. 7); a tenth run on a two-database multi-database (close / reuse); blobs: C13.')
