"""C11 — in-memory objects follow the outcome of their transaction."""
import os

from hypothesis import strategies as st

from vlib import clock, locks, objprog
from vlib.driver import Outcome, newdir

PROPERTY = 'C11'
LEVEL = 'exploration'
TECH = 'model-based stateful PBT: generated connection programs vs an object-level model (state, ownership, stored record sets)'
RULE = ('cases = generated programs over Node / PersistentMapping / PersistentList objects and the root: modifications, '
        'new objects linked directly or inside plain lists/dicts, explicit add, unlink, commit, abort, commits failed by a '
        'second resource manager in tpc_begin/commit/tpc_vote sorted before/after the connection, storage conflicts, '
        'close/reopen, cacheMinimize, on file/mapping/demo storages; oracle after every boundary: exact record set and single '
        'tid of the commit (storage iterator), objects clean with that serial; after abort/failed commit modified objects '
        'read their committed state, new objects have no jar/oid, KEEP their state and are later re-added and committed by '
        'the program (fresh connection must then read that state); close inside a transaction raises; evaluations = steps; '
        'non-trivial = program with a failed/aborted transaction that had both a modified and a new object, followed by a '
        'successful commit; distinct by program hash')
ASSUMPTIONS = ['the second resource manager is a plain object implementing the data-manager protocol; failures in tpc_finish '
               'are not generated (then the data is committed)']
BUDGET = {'quick': {'examples': 6000, 'workers': 8},
          'thorough': {'examples': 25000, 'workers': 16}}


def strategy(tier):
    n = 18 if tier == 'quick' else 35
    return st.fixed_dictionaries({'kind': st.sampled_from(['fs', 'fs', 'mapping', 'demo']),
                                  # explicit transaction mode (transaction.TransactionManager(explicit=True))
                                  'explicit': st.sampled_from([False, False, True]),
                                  'ops': st.lists(objprog.op_strategy({'fail'}), min_size=3, max_size=n)})


def storage_factory(kind, d):
    def f():
        from ZODB.DemoStorage import DemoStorage
        from ZODB.FileStorage import FileStorage
        from ZODB.MappingStorage import MappingStorage
        if kind == 'fs':
            return FileStorage(os.path.join(d, 'Data.fs'))
        if kind == 'mapping':
            return MappingStorage()
        return DemoStorage()
    return f


def execute(case):
    out = Outcome()
    out.evals = 0
    clock.install()
    locks.install()
    clock.reset()
    d = newdir()
    w = objprog.World(storage_factory(case['kind'], d), out, PROPERTY, lenient_disowned=False,
                      explicit=case.get('explicit', False))
    seen_abort = False
    nt = False
    try:
        # a small committed population to work on
        for op in (['new', 'N', 0, 's0', 'r'], ['new', 'M', 0, 's0', 'r'], ['new', 'L', 1, 's1', 'rl'], ['commit']):
            w.step(op)
        for op in case['ops']:
            w.step(op)
            clock.CLOCK.advance(0.25)
            out.evals += 1
            if out.failures:
                break
            if 'aborted-with-modified-and-new' in w.labels:
                seen_abort = True
            if seen_abort and op[0] == 'commit' and ('commit' in w.labels or 'commit-with-new' in w.labels):
                nt = True
    finally:
        w.close()
    out.label(case['kind'], *w.labels, *(['explicit-mode'] if case.get('explicit') else []))
    out.nontrivial = nt
    return out


LEVEL_TEXT = ('Generated connection programs are mirrored on an object-level model that predicts, for every step, the state '
              'each object shows, which objects have an oid, and exactly which records a commit stores; failed commits are '
              'provoked at every participant phase and by storage conflicts. Exploration of programs up to 18/35 steps.')
LEVEL_NOTE = ('Trusted: vlib/objprog.OModel; the storage iterator as the listing of stored records. Blobs and savepoints are in C13/C12.')
